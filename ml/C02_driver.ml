(* C02 model driver: reads the case file (same format as harness/C02/impl.cc), prints one line per case:
     <model observation> | <U>            (the functional model cannot modify its inputs: always U)
   and, after " # ", the value of the executable Coq spec where one exists (cofactor determinant of A),
   which the check compares with its own independent Python oracle.
   op lu (deep stream): prints the pivot vector and the packed LU of luDecomposition with ElimPivot. *)
open C02_model

let rec pos_of_int i = if i = 1 then XH else if i land 1 = 0 then XO (pos_of_int (i lsr 1)) else XI (pos_of_int (i lsr 1))
let z_of_int i = if i = 0 then Z0 else if i > 0 then Zpos (pos_of_int i) else Zneg (pos_of_int (-i))
let rec int_of_pos = function XH -> 1 | XO p -> 2 * int_of_pos p | XI p -> 2 * int_of_pos p + 1
let int_of_z = function Z0 -> 0 | Zpos p -> int_of_pos p | Zneg p -> - (int_of_pos p)
let rec nat_of_int i = if i = 0 then O else S (nat_of_int (i - 1))
let rec int_of_nat = function O -> 0 | S n -> 1 + int_of_nat n

let strs l = String.concat " " (List.map (fun z -> string_of_int (int_of_z z)) l)
let res_str f = function C02_Ok v -> "OK " ^ f v | C02_FMatrixError -> "EXC FMatrixError" | C02_DivByZero -> "EXC DivByZero"

(* an argument "chk" before the case file: the model of the build with DUNE_FMatrix_WITH_CHECKING *)
let chk = Array.exists (fun a -> a = "chk") Sys.argv
let m_solve ops a b piv = if chk then c02_solve_chk ops a b piv else c02_solve ops a b piv
let m_invert ops a piv = if chk then c02_invert_chk ops a piv else c02_invert ops a piv
(* the matrix object after invert(): the inverse, or (after an exception) the unchanged matrix — c02_call_invert *)
let invert_obs ops a piv dflt flat =
  if chk then (match c02_invert_chk ops a piv with C02_Ok b -> "OK " ^ flat b | C02_FMatrixError -> "EXC FMatrixError | U" | C02_DivByZero -> "EXC DivByZero | U")
  else
    let o = { ob_A = a; ob_b = [] } in
    let r = if dflt then (match c02_invert_dflt ops a with C02_Ok b -> (C02_Ok (), { ob_A = b; ob_b = [] }) | C02_FMatrixError -> (C02_FMatrixError, o) | C02_DivByZero -> (C02_DivByZero, o))
            else c02_call_invert ops o piv in
    (match r with
     | (C02_Ok (), o') -> "OK " ^ flat o'.ob_A
     | (C02_FMatrixError, o') -> "EXC FMatrixError | " ^ (if o'.ob_A = a then "U" else "MOD")
     | (C02_DivByZero, o') -> "EXC DivByZero | " ^ (if o'.ob_A = a then "U" else "MOD"))

(* ---- round 6, magnitude stream: the rational instance c02_q on A' = diag(2^e) * A * diag(2^f) (built with the model's own
   c02_scale2 / c02_scalev), same case format and output form as harness/C02/scale.cc:
     Q <T><K><S> op n piv e_0.. f_0.. g a_ij.. [b_i..]     values: <odd mantissa in hex>p<exp> | 0 | R<num hex>/<den hex>
   T = c / i (complex<double> with real entries / entries times the unit i): the real model value v is printed as the
   complex number the C++ computation yields in exact arithmetic (solve, invert: -i v;  det: i^n v). *)
let rec pos_pow2 k = if k = 0 then XH else XO (pos_pow2 (k - 1))
let q_pow2 k = if k >= 0 then { qnum = Zpos (pos_pow2 k); qden = XH } else { qnum = Zpos XH; qden = pos_pow2 (-k) }
let q_of_int i = { qnum = z_of_int i; qden = XH }
let rec pos_bits = function XH -> [1] | XO p -> 0 :: pos_bits p | XI p -> 1 :: pos_bits p      (* least significant first *)
let rec strip_tz bits k = match bits with 0 :: r -> strip_tz r (k + 1) | _ -> (bits, k)
let hex_of_bits bits =
  let rec go bits acc = match bits with
    | [] -> acc
    | _ -> let rec take n l v w = if n = 0 then (v, l) else (match l with [] -> (v, []) | b :: r -> take (n - 1) r (v + b * w) (w * 2)) in
           let (d, rest) = take 4 bits 0 1 in go rest (Printf.sprintf "%x" d ^ acc) in
  go bits ""
let rec is_pow2 = function XH -> true | XO p -> is_pow2 p | XI _ -> false
let q_str (x : q) =
  match x.qnum with
  | Z0 -> "0"
  | Zpos p | Zneg p ->
    let sg = (match x.qnum with Zneg _ -> "-" | _ -> "") in
    if is_pow2 x.qden then
      let (bits, tz) = strip_tz (pos_bits p) 0 in
      let (_, dk) = strip_tz (pos_bits x.qden) 0 in
      sg ^ hex_of_bits bits ^ "p" ^ string_of_int (tz - dk)
    else sg ^ "R" ^ hex_of_bits (pos_bits p) ^ "/" ^ hex_of_bits (pos_bits x.qden)
let q_neg_str x = let s = q_str x in if s = "0" then s else if s.[0] = '-' then String.sub s 1 (String.length s - 1) else "-" ^ s
let q_case (t : string array) =
  let kind = t.(1) and op = t.(2) and n = int_of_string t.(3) and pv = t.(4) in
  let ty = kind.[0] in
  let v = Array.map int_of_string (Array.sub t 5 (Array.length t - 5)) in
  let nn = nat_of_int n in
  let r = List.init n (fun i -> q_pow2 v.(i)) and s = List.init n (fun j -> q_pow2 v.(n + j)) and g = v.(2 * n) in
  let a0 = List.init n (fun i -> List.init n (fun j -> q_of_int v.(2 * n + 1 + i * n + j))) in
  let a = c02_scale2 c02_q nn r s a0 in
  let b = if op = "solve" then c02_scalev c02_q nn (List.init n (fun _ -> q_pow2 g)) (List.init n (fun i -> q_of_int v.(2 * n + 1 + n * n + i))) else [] in
  let piv = pv <> "0" and dflt = pv = "2" in
  let cplx_vec x = (match ty with 'c' -> q_str x ^ ",0" | 'i' -> "0," ^ q_neg_str x | _ -> q_str x) in
  let cplx_det x = (match ty with
                    | 'c' -> q_str x ^ ",0"
                    | 'i' -> (match n mod 4 with 0 -> q_str x ^ ",0" | 1 -> "0," ^ q_str x | 2 -> q_neg_str x ^ ",0" | _ -> "0," ^ q_neg_str x)
                    | _ -> q_str x) in
  let vs l = String.concat " " (List.map cplx_vec l) in
  let exc = function C02_FMatrixError -> "EXC FMatrixError | U" | C02_DivByZero -> "EXC DivByZero | U" | C02_Ok _ -> "?" in
  match op with
  | "solve" -> (match (if chk then c02_solve_chk c02_q a b piv else if dflt then c02_solve_dflt c02_q a b else c02_solve c02_q a b piv) with
                | C02_Ok x -> "OK " ^ vs x ^ " | U" | e -> exc e)
  | "invert" -> (match (if chk then c02_invert_chk c02_q a piv else if dflt then c02_invert_dflt c02_q a else c02_invert c02_q a piv) with
                 | C02_Ok bi -> "OK " ^ vs (List.concat bi) ^ " | U" | e -> exc e)
  | "det" -> (match (if dflt then c02_determinant_dflt c02_q a else c02_determinant c02_q a piv) with
              | C02_Ok d -> "OK " ^ cplx_det d ^ " | U" | e -> exc e)
  | _ -> "UNKNOWN-OP"

let () =
  let ic = open_in Sys.argv.(Array.length Sys.argv - 1) in
  (try while true do
    let line = input_line ic in
    let t = Array.of_list (List.filter (fun s -> s <> "") (String.split_on_char ' ' (String.trim line))) in
    if t.(0) = "Q" then print_endline (q_case t) else
    let p = int_of_string t.(0) and kind = t.(1) and op = t.(2) and n = int_of_string t.(3) and piv = t.(4) <> "0" and dflt = t.(4) = "2" (* 2: the call uses the default argument: c02_*_dflt *) in
    let ops = c02_zp (z_of_int p) in
    let v = Array.map (fun s -> z_of_int (((int_of_string s) mod p + p) mod p)) (Array.sub t 5 (Array.length t - 5)) in
    let mat off = List.init n (fun i -> List.init n (fun j -> v.(off + i * n + j))) in
    let vec off = List.init n (fun i -> v.(off + i)) in
    let flat m = strs (List.concat m) in
    let specdet a = if n > 6 then " # -" else " # " ^ string_of_int (int_of_z (c02_spec_det ops (nat_of_int n) a)) in
    let out =
      match kind, op with
      | ("D" | "F"), "nsq" ->
          let a = List.init n (fun _ -> List.init (int_of_string t.(4)) (fun _ -> z_of_int 1)) in
          let b = List.init n (fun _ -> Z0) in
          String.concat " " [ (match m_solve ops a b true with C02_Ok _ -> "OK" | C02_FMatrixError -> "EXC FMatrixError" | C02_DivByZero -> "EXC DivByZero");
                              (match c02_determinant ops a true with C02_Ok _ -> "OK" | C02_FMatrixError -> "EXC FMatrixError" | C02_DivByZero -> "EXC DivByZero");
                              (match m_invert ops a true with C02_Ok _ -> "OK" | C02_FMatrixError -> "EXC FMatrixError" | C02_DivByZero -> "EXC DivByZero") ]
      | ("F" | "D" | "X" | "Y" | "Z" | "W" | "R" | "V"), "solvealias" ->
          (* model of the patched code (= c02_solve: b is read before x is written); third field: the code as it is *)
          let a = mat 0 in res_str strs (m_solve ops a (vec (n * n)) piv) ^ " | U" ^ specdet a ^ " # asis " ^ res_str strs (c02_solve_aliased ops a (vec (n * n)) piv)
      | ("F" | "D" | "X" | "Y" | "Z" | "W" | "R" | "V"), "solverow" ->
          let a = mat 0 in res_str strs (m_solve ops a (List.hd a) piv) ^ " | U" ^ specdet a
      | ("F" | "D" | "X" | "Y" | "Z" | "W" | "R" | "V"), "seqthrow" ->
          let a = mat 0 and b = vec (n * n) in
          let (s1, a') = (match m_invert ops a piv with
                          | C02_Ok bi -> ("OK " ^ flat bi, bi)
                          | C02_FMatrixError -> ("EXC FMatrixError U", a)
                          | C02_DivByZero -> ("EXC DivByZero U", a)) in
          let plain f = function C02_Ok v -> "OK " ^ f v | C02_FMatrixError -> "EXC FMatrixError" | C02_DivByZero -> "EXC DivByZero" in
          s1 ^ " ; " ^ plain (fun d -> strs [d]) (c02_determinant ops a' piv) ^ " ; " ^ plain strs (m_solve ops a' b piv) ^ specdet a
      | ("F" | "D" | "X" | "Y" | "Z" | "W" | "R" | "V"), "solve" -> let a = mat 0 in res_str strs (if dflt && not chk then c02_solve_dflt ops a (vec (n * n)) else m_solve ops a (vec (n * n)) piv) ^ " | U" ^ specdet a
      | ("F" | "D" | "X" | "Y" | "Z" | "W" | "R" | "V"), "det" -> let a = mat 0 in res_str (fun d -> strs [d]) (if dflt then c02_determinant_dflt ops a else c02_determinant ops a piv) ^ " | U" ^ specdet a
      | ("F" | "D" | "X" | "Y" | "Z" | "W" | "R" | "V"), "invert" -> let a = mat 0 in invert_obs ops a piv dflt flat ^ specdet a
      | ("F" | "D" | "X" | "Y" | "Z" | "W" | "R" | "V"), "seq" ->
          (* det, solve, invert, det of the inverse, invert back, solve again — composed from the model functions *)
          let a = mat 0 and b = vec (n * n) in
          let exc st = function C02_FMatrixError -> "EXC FMatrixError @" ^ st | C02_DivByZero -> "EXC DivByZero @" ^ st | C02_Ok _ -> "?" in
          (match c02_determinant ops a piv with
           | C02_Ok d ->
             (match m_solve ops a b piv with
              | C02_Ok x ->
                (match m_invert ops a piv with
                 | C02_Ok bi ->
                   (match c02_determinant ops bi piv with
                    | C02_Ok d2 ->
                      (match m_invert ops bi piv with
                       | C02_Ok a2 ->
                         (match m_solve ops a2 b piv with
                          | C02_Ok x2 -> "OK " ^ strs [d] ^ " ; " ^ strs x ^ " ; " ^ flat bi ^ " ; " ^ strs [d2] ^ " ; " ^ strs x2
                                         ^ " | " ^ (if a2 = a then "U" else "MOD")
                          | r -> exc "solve2" r)
                       | r -> exc "invert2" r)
                    | r -> exc "det2" r)
                 | r -> exc "invert" r)
              | r -> exc "solve" r)
           | r -> exc "det" r) ^ specdet a
      | ("F" | "D"), "lu" ->
          (match c02_lu ops c02_ElimPivot (nat_of_int n) piv (mat 0) (List.init n nat_of_int) with
           | C02_LU_Ok (lu, pv) -> "OK " ^ String.concat " " (List.map (fun k -> string_of_int (int_of_nat k)) pv) ^ " ; " ^ flat lu
           | C02_LU_Singular _ -> "EXC FMatrixError"
           | C02_LU_DivByZero -> "EXC DivByZero")
      | "H", ("hinv" | "hinvT") ->
          let a = mat 0 in
          res_str (fun (d, b) -> strs [d] ^ " ; " ^ flat b) (c02_help_invert ops a (op = "hinvT")) ^ " | U" ^ specdet a
      | "H", "hinvalias" -> "-"
      | "G", ("solvedyn" | "solvealias") -> (match c02_diag_solve ops (vec 0) (vec n) with Some x -> "OK " ^ strs x | None -> "EXC DivByZero") ^ " | U"
      | "G", "solve" -> (match c02_diag_solve ops (vec 0) (vec n) with Some x -> "OK " ^ strs x | None -> "EXC DivByZero") ^ " | U"
      | "G", "invert" -> (match c02_diag_invert ops (vec 0) with Some x -> "OK " ^ strs x | None -> "EXC DivByZero")
      | "G", "det" -> "OK " ^ strs [c02_diag_det ops (vec 0)] ^ " | U" ^ " # " ^ string_of_int (int_of_z (c02_spec_det ops (nat_of_int n) (c02_diag_dense ops (vec 0))))
      | _ -> "UNKNOWN-OP" in
    print_endline out
  done with End_of_file -> ())
