(* C03 model driver: reads the case file (one history per line:  N chk op op op ...), prints one line per case:
     <model outputs (code after fix C03-1)> | <model outputs (legacy probe==-1 test)> | <spec machine outputs>
   outputs of the ops are joined by ';'.  N (chunk size) is ignored by the model: lists stand for ArrayLists. *)
open C03_model

let rec pos_of_int i = if i = 1 then XH else if i land 1 = 0 then XO (pos_of_int (i lsr 1)) else XI (pos_of_int (i lsr 1))
let n_of_int i = if i = 0 then N0 else Npos (pos_of_int i)
(* numbers of any size (local numbers up to 2^64-1, long long globals down to -2^63): decimal string <-> positive, no machine ints *)
let dec_halve (d : int list) : int list * int =          (* digits, most significant first -> (d / 2, d mod 2) *)
  let (q, r) = List.fold_left (fun (q, r) x -> let v = 10 * r + x in (v / 2 :: q, v mod 2)) ([], 0) d in
  let rec strip = function 0 :: (_ :: _ as t) -> strip t | l -> l in
  (strip (List.rev q), r)
let rec pos_of_digits d =
  let (q, r) = dec_halve d in
  if q = [0] then XH else if r = 0 then XO (pos_of_digits q) else XI (pos_of_digits q)
let digits_of_string s =
  if s = "" then failwith "empty number";
  List.init (String.length s) (fun k -> let c = s.[k] in if c < '0' || c > '9' then failwith ("bad number " ^ s) else Char.code c - 48)
let n_of_str s = let d = digits_of_string s in if List.for_all (fun x -> x = 0) d then N0 else Npos (pos_of_digits d)
let z_of_str s =
  if s <> "" && s.[0] = '-' then (match n_of_str (String.sub s 1 (String.length s - 1)) with N0 -> Z0 | Npos p -> Zneg p)
  else (match n_of_str s with N0 -> Z0 | Npos p -> Zpos p)
let dec_double_add (d : int list) (b : int) : int list =  (* digits, LEAST significant first -> 2 d + b *)
  let rec go c = function [] -> if c = 0 then [] else [c] | x :: t -> let v = 2 * x + c in (v mod 10) :: go (v / 10) t in
  go b d
let rec digits_of_pos = function XH -> [1] | XO p -> dec_double_add (digits_of_pos p) 0 | XI p -> dec_double_add (digits_of_pos p) 1
let str_of_pos p = String.concat "" (List.rev_map string_of_int (digits_of_pos p))
let str_of_n = function N0 -> "0" | Npos p -> str_of_pos p
let str_of_z = function Z0 -> "0" | Zpos p -> str_of_pos p | Zneg p -> "-" ^ str_of_pos p
let rec nat_of_int i = if i = 0 then O else S (nat_of_int (i - 1))

let pair_str p =
  Printf.sprintf "(%s,%s,%s,%d,%s)" (str_of_z p.c03_g) (str_of_n p.c03_loc) (str_of_n p.c03_attr)
    (if p.c03_pub then 1 else 0) (if p.c03_del then "D" else "V")

let out_str = function
  | C03Ok -> "ok" | C03InvalidState -> "EXC InvalidIndexSetState"
  | C03Bool b -> if b then "1" else "0"
  | C03PairOut p -> pair_str p
  | C03RangeError -> "EXC RangeError"
  | C03Num z -> str_of_z z
  | C03ModeOut r -> if r then "RESIZE" else "GROUND"
  | C03List l -> "[" ^ String.concat "" (List.map pair_str l) ^ "]"
  | C03Bits b -> "b" ^ String.concat "" (List.map (fun x -> if x then "1" else "0") b)
  | C03Null -> "NULL" | C03Precond -> "PRECOND" | C03Overflow -> "OVERFLOW" | C03OutOfFuel -> "OUTOFFUEL"

(* one token of the case line -> the model ops it stands for (their outputs are joined by '/') *)
let parse_op s =
  let t = Array.of_list (String.split_on_char ':' s) in
  let i k = int_of_string t.(k) in
  match t.(0) with
  | "B" -> [C03Begin]
  | "A" -> [C03Add (z_of_str t.(1), n_of_str t.(2), n_of_str t.(3), i 4 <> 0)]
  | "a" -> [c03_add_default (z_of_str t.(1))]                 (* add(global): default-constructed local index (model) *)
  | "D" -> [C03MarkDeleted (nat_of_int (i 1))]
  | "E" -> [C03End] | "R" -> [C03Renumber]
  | "X" -> [C03Exists (z_of_str t.(1))] | "T" -> [C03At (z_of_str t.(1))] | "G" -> [C03Get (z_of_str t.(1))]
  | "Y" -> [C03Get (z_of_str t.(1))]                          (* GlobalLookupIndexSet::operator[] forwards to the set *)
  | "S" -> [C03Size] | "Q" -> [C03SeqNo] | "M" -> [C03Mode] | "I" -> [C03Iterate]
  | "J" -> [C03Iterate]                                       (* GlobalLookupIndexSet::begin()/end() *)
  | "C" -> [C03Iterate; C03Size; C03SeqNo; C03Mode]           (* a copy read back immediately *)
  | "V" -> [C03Reverse (n_of_str t.(1))]
  | "W" -> [C03ReverseSized (n_of_str t.(1), n_of_str t.(2))]
  | "U" -> [C03SetLocal (z_of_str t.(1), n_of_str t.(2))]
  | "Z" -> [C03SetEq (n_of_str t.(1))]
  | "z" -> [C03SetEq (n_of_str t.(1))]                        (* the same comparison against an instance with ANOTHER global index type *)
  | "K" -> [C03Cmp (nat_of_int (i 1), nat_of_int (i 2), z_of_str t.(3))]
  | "c" -> [C03Size]     (* placeholder: assignment of the current set to a target with pre-existing state; the history continues on the target *)
  | "r" -> [C03Size]     (* placeholder: resolved against the current state by c03_readd_op when the history is stepped *)
  | _ -> failwith ("bad op " ^ s)

(* reverse-lookup tables have (largest local number + 1) entries: with local numbers near 2^31 .. 2^64 (audit 2) they are not built,
   neither here nor in the harness (same rule, same output) *)
let table_too_large l = match c03_lookup_size l with C03Num z -> String.length (str_of_z z) > 6 | _ -> false
let sized_too_large sz = String.length (str_of_n sz) > 6
let guard_table tok l op =
  match op with
  | C03Reverse _ when table_too_large l -> Some "TABLE-TOO-LARGE"
  | C03ReverseSized (sz, _) when sized_too_large sz -> Some "TABLE-TOO-LARGE"
  | C03ReverseSized (_, _) when table_too_large l -> Some "PRECOND"      (* a local number >= 999999 > sz overruns the table; not computed in unary *)
  | (C03Get _ | C03Iterate) when (tok.[0] = 'Y' || tok.[0] = 'J') && table_too_large l -> Some "TABLE-TOO-LARGE"
  | _ -> None

let rec take n l = if n = 0 then [] else match l with [] -> [] | x :: r -> x :: take (n - 1) r
let rec drop n l = if n = 0 then l else match l with [] -> [] | _ :: r -> drop (n - 1) r

let () =
  let ic = open_in Sys.argv.(1) in
  (try while true do
    let line = String.trim (input_line ic) in
    (try
      let t = List.filter (fun s -> s <> "") (String.split_on_char ' ' line) in
      match t with
      | _ :: chk :: ops ->
          let chk = chk <> "0" in
          let toks = ops in
          let readd_k tok = nat_of_int (int_of_string (List.nth (String.split_on_char ':' tok) 1)) in
          let groups = List.map parse_op ops in
          let ops = List.concat groups in
          let show os =
            let rec go gs os = match gs with
              | [] -> []
              | g :: r -> let k = List.length g in String.concat "/" (List.map out_str (take k os)) :: go r (drop k os) in
            String.concat ";" (go groups os) in
          (* the model is stepped here so that the state is at hand: at()/operator[] are evaluated through BOTH the
             non-const and the const spelling of the search (as the harness calls both overloads), the lookup set's size() too *)
          let run_model legacy =
            let st = ref c03_init in
            List.concat (List.map2 (fun tok g ->
              List.map (fun op ->
                let before = !st in
                if tok.[0] = 'c' then begin
                  (* w/2 = configuration of the target, w mod 2 = copy / move assignment: both are member-wise *)
                  let w = int_of_string (List.nth (String.split_on_char ':' tok) 1) in
                  st := c03_assign (c03_dirty (n_of_int (w / 2))) before; "ok" end else
                let op = if tok.[0] = 'r' then c03_readd_op before.c03_local (readd_k tok) else op in
                match guard_table tok before.c03_local op with Some x -> x | None ->
                let (st', o) = c03_step chk legacy before op in
                st := st';
                let both a b = let sa = out_str a and sb = out_str b in if sa = sb then sa else "nonconst=" ^ sa ^ ",const=" ^ sb in
                match op with
                | C03At g -> both o (c03_at_c legacy before.c03_local g)
                | C03Get g -> both o (c03_get_c before.c03_local g)
                | C03Iterate when tok.[0] = 'J' -> out_str o ^ "/" ^ out_str (c03_lookup_size before.c03_local)
                | _ -> out_str o) g) toks groups) in
          let showm strs =
            let rec go gs os = match gs with
              | [] -> []
              | g :: r -> let k = List.length g in String.concat "/" (take k os) :: go r (drop k os) in
            String.concat ";" (go groups strs) in
          let m = run_model c03_param_legacy_probe_test in
          let ml = run_model true in
          let sp =
            let st = ref c03s_init in
            List.concat (List.map2 (fun tok g ->
              List.map (fun op ->
                let before = !st in
                if tok.[0] = 'c' then "ok" else      (* spec: an assigned set IS the source; nothing to do *)
                let op = if tok.[0] = 'r' then c03_readd_op before.c03s_set (readd_k tok) else op in
                match guard_table tok before.c03s_set op with Some x -> x | None ->
                let (st', o) = c03_spec_step before op in
                st := st';
                match op with
                | C03Iterate when tok.[0] = 'J' -> out_str o ^ "/" ^ out_str (c03_lookup_size before.c03s_set)
                | _ -> out_str o) g) toks groups) in
          print_endline (showm m ^ " | " ^ showm ml ^ " | " ^ showm sp)
      | _ -> print_endline "BAD-CASE"
    with Failure e -> print_endline ("BAD-CASE " ^ e))
  done with End_of_file -> ())
