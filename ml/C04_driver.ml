(* C04 model driver: reads the case file, prints one line per case:
     <model observation> | <spec observation>
   Case line (integers):
     P two ign incself mode seed ign2 resize      (two: 0 all ranks one index-set object, 1 all two, >= 2 mixed: bit r of two-2)
     phase 1: for each rank:  ns (g li attr pub)*ns  nt (g li attr pub)*nt
     phase 2: the same (the sets after the resize; equal to phase 1 where a set is not resized)
     for each rank: nn (q)*nn     neighbour hints as passed to the constructor (mode 1; nn = 0 in ring mode)
     for each rank: no (q)*no     the probe order the MODEL uses (a permutation of the hints without the rank)
   mode 0 = ring, 1 = neighbour hints; resize: bit 0 = source sets resized, bit 1 = target sets resized.
   Observation, per rank (ranks joined by " ; "):
     r<p> pre=<b> syn=<b> nb=<n> {<q>:S[g.li.a.pub.ra ...]R[...] ...} aft=<b> syn2=<b> nb2=<n> {...}          *)
open C04_model

let rec nat_of_int i = if i <= 0 then O else S (nat_of_int (i - 1))
let rec int_of_nat = function O -> 0 | S n -> 1 + int_of_nat n
let b01 b = if b then "1" else "0"

let entry ((ra, p) : c04_rentry) =
  Printf.sprintf "%d.%d.%d.%s.%d" (int_of_nat p.c04_g) (int_of_nat p.c04_li) (int_of_nat p.c04_attr) (b01 p.c04_pub) (int_of_nat ra)
let elist l = String.concat " " (List.map entry l)
let rmap_str (m : (nat * c04_lists) list) =
  Printf.sprintf "nb=%d {%s}" (List.length m)
    (String.concat " " (List.map (fun (q, (s, r)) -> Printf.sprintf "%d:S[%s]R[%s]" (int_of_nat q) (elist s) (elist r)) m))
let res_str = function C04_Ok m -> rmap_str m | C04_OutOfFuel -> "OUTOFFUEL" | C04_Mixed -> "MIXED"

let main_cases file =
  let ic = open_in file in
  (try while true do
    let line = input_line ic in
    let toks = ref (List.filter (fun s -> s <> "") (String.split_on_char ' ' (String.trim line))) in
    let next () = match !toks with [] -> failwith "short case" | t :: r -> toks := r; int_of_string t in
    (try
      let p = next () in let twocode = next () in let ign = next () = 1 in let inctok = next () in
      (* inctok: 0/1 uniform includeSelf, >= 2: per rank, bit r of (inctok-2).  mode token: (ring|neighbour) + 2*communicator kind
         + 8*pre; the case is numbered by the ranks in its communicator, and a re-targeted object equals a fresh one
         (C04_retarget_as_fresh), so neither changes what the model computes *)
      let incs = List.init p (fun r -> if inctok >= 2 then ((inctok - 2) lsr r) land 1 = 1 else inctok = 1) in
      let incself = inctok = 1 in
      let mode = (next ()) land 1 in let _seed = next () in let ign2 = next () = 1 in let resize = next () in
      (* twocode: 0 = every rank one index-set object, 1 = every rank two, >= 2: mixed, bit r of (twocode-2) = rank r has two *)
      let two = twocode <> 0 in
      let mixed = twocode >= 2 in
      let twos = List.init p (fun r -> if mixed then ((twocode - 2) lsr r) land 1 = 1 else two) in
      let rset () = let n = next () in List.init n (fun _ -> let g = next () in let li = next () in let a = next () in let pb = next () in
                       { c04_g = nat_of_int g; c04_li = nat_of_int li; c04_attr = nat_of_int a; c04_pub = (pb = 1) }) in
      let rdecomp () = List.init p (fun _ -> let s = rset () in let t = rset () in (s, t)) in
      let d1 = rdecomp () in let d2 = rdecomp () in
      let rl () = let n = next () in List.init n (fun _ -> nat_of_int (next ())) in
      let _hints = List.init p (fun _ -> rl ()) in
      let orders = List.init p (fun _ -> rl ()) in
      let md = if mode = 0 then None else Some orders in
      let sorted = List.for_all (fun (s, t) -> c04_sortedb s && c04_sortedb t) (d1 @ d2) in
      if not sorted then print_endline "UNSORTED-CASE | UNSORTED-CASE" else begin
      let buildf d ig = if mixed then c04_build_mixed twos ig incself d md else c04_build_incs two ig incs d md in
      let specf ig d r = if mixed then c04_spec_rank_mixed ig twos incself d r else c04_spec_rank ig two (List.nth incs (int_of_nat r)) d r in
      let one = Zpos XH in
      let w0 = c04_init two d1 one one in
      let pre = c04_is_synced w0 in
      let ops1 = [C04_Rebuild ign] in
      let w1 = c04_run_ops buildf w0 ops1 in
      let ops2 = (if resize land 1 <> 0 then [C04_ResizeSrc d2] else []) @ (if resize land 2 <> 0 then [C04_ResizeDst d2] else []) in
      let w2 = c04_run_ops buildf w1 ops2 in
      let w3 = c04_run_ops buildf w2 [C04_Rebuild ign2] in
      let mp w r = match w.c04_w_map with None -> "NOMAP" | Some l -> res_str (List.nth l r) in
      let fmt pre syn m1 aft syn2 m2 r =
        let m2' = if String.length m2 > 2 && String.sub m2 0 3 = "nb=" then "nb2=" ^ String.sub m2 3 (String.length m2 - 3) else m2 in
        Printf.sprintf "r%d pre=%s syn=%s %s aft=%s syn2=%s %s" r (b01 pre) (b01 syn) m1 (b01 aft) (b01 syn2) m2' in
      let model = String.concat " ; " (List.init p (fun r ->
        fmt pre (c04_is_synced w1) (mp w1 r) (c04_is_synced w2) (c04_is_synced w3) (mp w3 r) r)) in
      (* spec: the set comprehension on the decomposition, and the resize history *)
      let dfin = if resize <> 0 then d2 else d1 in
      let spec = String.concat " ; " (List.init p (fun r ->
        fmt (not (c04_stale true [])) (not (c04_stale true ops1)) (rmap_str (specf ign d1 (nat_of_int r)))
            (not (c04_stale true (ops1 @ ops2))) (not (c04_stale true (ops1 @ ops2 @ [C04_Rebuild ign2])))
            (rmap_str (specf ign2 dfin (nat_of_int r))) r)) in
      print_string model; print_string " | "; print_endline spec end
    with Failure m -> print_endline ("BADCASE " ^ m ^ " | BADCASE"))
  done with End_of_file -> ())

(* ---- object histories (argv: hist <file>) -------------------------------------------------------------------------
   Case line (integers):
     P two seed M   then M decompositions (for each rank: src set, dst set)
     NS  m_0 .. m_{NS-1}                    initial content D[m_j] of index-set pair (slot) j
     (slot tokens of the construction and of op 1 are slot + 16 * communicator kind: 0 given, 1 duplicate, 2 reversed, 3 rotated;
      hints given with a call are indexed by the rank in the communicator in force after the call)
     kind slot hintflag inc [hints]         construction: kind 0 RemoteIndices(S,T,comm,hints,inc); kind 1 RemoteIndices() +
                                            setIndexSets(S,T,comm[,hints]) + setIncludeSelf(inc);  hints = per rank: nn q*nn
     nops, then ops:  1 slot hintflag [hints] setIndexSets | 2 hints setNeighbours | 3 b setIncludeSelf | 4 free
                      | 5 ign cmpinc rebuild<ign> (observed) | 6 slot ws wd m resize of slot towards D[m]
   Observation per rank:  r<p> then per rebuild  [b=<isSynced before> s=<after> nb=<n> gn=<getNeighbours> eq=<1> {map}]
   (spec: b=? where isSynced is not determined by the property: no build since construction/setIndexSets/free)          *)
let main_hist file =
  let ic = open_in file in
  (try while true do
    let line = input_line ic in
    let toks = ref (List.filter (fun s -> s <> "") (String.split_on_char ' ' (String.trim line))) in
    let next () = match !toks with [] -> failwith "short case" | t :: r -> toks := r; int_of_string t in
    (try
      let p = next () in let two = next () = 1 in let _seed = next () in let m = next () in
      let rset () = let n = next () in List.init n (fun _ -> let g = next () in let li = next () in let a = next () in let pb = next () in
                       { c04_g = nat_of_int g; c04_li = nat_of_int li; c04_attr = nat_of_int a; c04_pub = (pb = 1) }) in
      let rdecomp () = List.init p (fun _ -> let s = rset () in let t = rset () in (s, t)) in
      let ds = Array.init m (fun _ -> rdecomp ()) in
      let ns = next () in
      let one = Zpos XH in
      let slots = List.init ns (fun _ -> let mi = next () in { c04_sl_content = ds.(mi); c04_sl_srcSeq = one; c04_sl_dstSeq = one }) in
      let rhints () = List.init p (fun _ -> let n = next () in List.init n (fun _ -> nat_of_int (next ()))) in
      let ropt () = if next () = 1 then Some (rhints ()) else None in
      let kind = next () in let slottok = next () in let hf = next () in let inc = next () = 1 in
      (* slot tokens of the constructor and of setIndexSets: slot + 16 * communicator kind *)
      let slot = nat_of_int (slottok land 15) in let ck0 = nat_of_int ((slottok lsr 4) land 3) in
      let hints0 = if hf = 1 then Some (rhints ()) else None in
      let np = nat_of_int p in
      let buildf = c04_obj_buildf_comm two in
      let sbuildf k d ig ic _ = let dv = c04_comm_view k ([], []) d in List.init p (fun r -> C04_Ok (c04_spec_rank ig two ic dv (nat_of_int r))) in
      let noh = List.init p (fun _ -> []) in
      let y = ref { c04_sc_comm = ck0; c04_sc_sys = { c04_sy_two = two; c04_sy_P = np; c04_sy_slots = slots;
                    c04_sy_obj = (if kind = 0 then c04_obj_ctor slot (match hints0 with Some h -> h | None -> noh) inc else c04_obj_default np) } } in
      let h = ref ({ c04_hs_two = two; c04_hs_P = np; c04_hs_contents = List.map (fun s -> s.c04_sl_content) slots;
                    c04_hs_slot = (if kind = 0 then Some slot else None);
                    c04_hs_hints = (if kind = 0 then List.map c04_set_of (match hints0 with Some h -> h | None -> noh) else noh);
                    c04_hs_incself = (if kind = 0 then inc else false); c04_hs_built = None; c04_hs_stale = false; c04_hs_map = None }, ck0) in
      let mobs = Array.make p "" and sobs = Array.make p "" in
      let apply op = y := c04_hstepc buildf !y op; h := c04_hspec_stepc sbuildf !h op in
      if kind = 1 then begin apply (C04_CSetIndexSets (slot, ck0, hints0)); apply (C04_COp (C04_HSetIncludeSelf inc)) end;
      let nops = next () in
      let gn l = String.concat "," (List.map (fun q -> string_of_int (int_of_nat q)) l) in
      let mpstr mp r = match mp with None -> "NOMAP" | Some l -> res_str (List.nth l r) in
      for _ = 1 to nops do
        match next () with
        | 1 -> let st = next () in let hi = ropt () in
               apply (C04_CSetIndexSets (nat_of_int (st land 15), nat_of_int ((st lsr 4) land 3), hi))
        | 2 -> let hi = rhints () in apply (C04_COp (C04_HSetNeighbours hi))
        | 3 -> let b = next () = 1 in apply (C04_COp (C04_HSetIncludeSelf b))
        | 4 -> apply (C04_COp C04_HFree)
        | 5 -> let ig = next () = 1 in let _cmpinc = next () in
               let mb = b01 (c04_obj_synced (!y).c04_sc_sys) in
               let sb = (match (fst !h).c04_hs_built with None -> "?" | Some _ -> b01 (not (fst !h).c04_hs_stale)) in
               apply (C04_COp (C04_HRebuild ig));
               (* records are per process; maps and neighbourIds are indexed by the rank in the communicator in force *)
               let crank k w = let rec f i = if i >= p then 0 else if int_of_nat (c04_comm_world k np (nat_of_int i)) = w then i else f (i + 1) in f 0 in
               for r = 0 to p - 1 do
                 let ys = (!y).c04_sc_sys in
                 let rm = crank (!y).c04_sc_comm r and rs = crank (snd !h) r in
                 mobs.(r) <- mobs.(r) ^ Printf.sprintf " [b=%s s=%s gn=%s eq=1 %s]" mb (b01 (c04_obj_synced ys))
                               (gn (List.nth ys.c04_sy_obj.c04_ob_hints rm)) (mpstr ys.c04_sy_obj.c04_ob_map rm);
                 sobs.(r) <- sobs.(r) ^ Printf.sprintf " [b=%s s=1 gn=%s eq=1 %s]" sb
                               (gn (List.nth (fst !h).c04_hs_hints rs)) (mpstr (fst !h).c04_hs_map rs)
               done
        | 6 -> let s = nat_of_int (next ()) in let ws = next () = 1 in let wd = next () = 1 in let mi = next () in
               apply (C04_COp (C04_HResize (s, ws, wd, ds.(mi))))
        | _ -> failwith "bad op"
      done;
      let join a = String.concat " ; " (List.init p (fun r -> Printf.sprintf "r%d%s" r a.(r))) in
      print_string (join mobs); print_string " | "; print_endline (join sobs)
    with Failure msg -> print_endline ("BADCASE " ^ msg ^ " | BADCASE"))
  done with End_of_file -> ())

let () =
  if Array.length Sys.argv >= 3 && Sys.argv.(1) = "hist" then main_hist Sys.argv.(2) else main_cases Sys.argv.(1)
