(* C05 model driver: reads the case file of harness/C05/impl.cc (same format), prints one line per case:
     <model observation, same layout as the impl's line>  ||  <spec: expected interfaces, selections, scatter calls, final containers>
   The model is run with the receives completing in ascending and in descending process order; if the canonical
   observation differs the line ends with " ORDER-DEPENDENT" (the theorems say it never does). *)
open C05_model

let rec nat_of_int i = if i <= 0 then O else S (nat_of_int (i - 1))
let rec int_of_nat = function O -> 0 | S n -> 1 + int_of_nat n
let rec pos_of_int i = if i = 1 then XH else if i land 1 = 0 then XO (pos_of_int (i lsr 1)) else XI (pos_of_int (i lsr 1))
let n_of_int i = if i = 0 then N0 else Npos (pos_of_int i)
let rec int_of_pos = function XH -> 1 | XO p -> 2 * int_of_pos p | XI p -> 2 * int_of_pos p + 1
let int_of_n = function N0 -> 0 | Npos p -> int_of_pos p

(* flag-set table: ids shared with harness/C05/impl.cc *)
let item i = C05_Item (nat_of_int i)
let range a b = C05_Range (nat_of_int a, nat_of_int b)
let flagsets = [|
  C05_Empty; C05_All; item 0; item 1; item 2; range 0 1; range 1 2;
  C05_Combine (item 0, item 2); C05_Negate (item 1); C05_Negate (range 0 1);
  C05_Combine (range 1 1, C05_Negate C05_All); C05_Combine (C05_Negate (range 0 1), C05_Empty) |]

type ent = { g : int; l : int; a : int; pub : int }
type rs = { s : ent list; t : ent list; caps : int; capt : int }

let tagv ph rank set l j = ((((ph * 8 + rank) * 2 + set) * 64 + l) * 4 + j) + 1

let join sep f l = String.concat sep (List.map f l)
let ints l = join "," string_of_int l
let block_str vs = if vs = [] then "-" else join "." (fun v -> string_of_int (int_of_n v)) vs
let data_str d = join "," block_str d
let oblock_str vs = if vs = [] then "-" else join "." (function Some v -> string_of_int (int_of_n v) | None -> "*") vs
let odata_str d = join "," oblock_str d
let calls_str cs = join "," (fun ((l, j), v) -> Printf.sprintf "%d.%d=%d" (int_of_nat l) (int_of_nat j) (int_of_n v)) cs
let imap_str m =
  join " " (fun (q, (s, r)) -> Printf.sprintf "%d:%s/%s" (int_of_nat q) (ints (List.map int_of_nat s)) (ints (List.map int_of_nat r))) m

let mk_iset es = List.map (fun e -> { c05_ie_g = nat_of_int e.g; c05_ie_l = nat_of_int e.l; c05_ie_a = nat_of_int e.a; c05_ie_pub = (e.pub <> 0) }) es

let sizes mode sz es cap =
  let a = Array.make cap 1 in
  if mode = 1 then List.iter (fun e -> a.(e.l) <- sz.(e.g)) es;
  Array.to_list a
let mk_data ph rank set szl = List.mapi (fun l n -> List.init n (fun j -> n_of_int (tagv ph rank set l j))) szl

let sort_calls cs = List.sort compare (List.map (fun ((l, j), v) -> (int_of_nat l, int_of_nat j, int_of_n v)) cs)

let process line =
  let toks = Array.of_list (List.filter (fun s -> s <> "") (String.split_on_char ' ' line)) in
  let pos = ref 0 in
  let next () = let v = int_of_string toks.(!pos) in incr pos; v in
  let p_ = next () in let two = next () in let ign = next () in let src = next () in let dst = next () in
  let mode0 = next () in let mode = mode0 mod 4 in   (* +4/+8: build() called twice on one object; the model is the code after fixes/C05-1 (build starts from scratch) *)
  let pol0 = next () in let pol = pol0 mod 2 and dt = (pol0 / 2) mod 2 <> 0 and cgs = (pol0 / 4) mod 2 <> 0 && (mode <> 1) and sep = (pol0 / 8) mod 2 <> 0 in
  let ictor = (pol0 / 128) mod 2 <> 0 and ipre = (pol0 / 256) mod 2 <> 0 and opre = (pol0 / 512) mod 2 <> 0 in   (* +2: DatatypeCommunicator phases 3/4, spec only *) let _seed = next () in let ng = next () in
  let sz = Array.init ng (fun _ -> next ()) in
  let read_set () = let n = next () in let es = List.init n (fun _ -> let g = next () in let l = next () in let a = next () in let pub = next () in { g; l; a; pub }) in
    let cap = next () in (es, cap) in
  let rss = List.init p_ (fun _ -> let (s, caps) = read_set () in
                           if two <> 0 then let (t, capt) = read_set () in { s; t; caps; capt } else { s; t = s; caps; capt = caps }) in
  let two_b = two <> 0 and ign_b = ign <> 0 and add = pol <> 0 in
  let tc = two_b || sep in                 (* separate source and target containers *)
  let esz = if mode = 3 then 16 else 8 in
  let fsrc = flagsets.(src) and fdst = flagsets.(dst) in
  let dec_raw = List.map (fun r -> (mk_iset r.s, mk_iset r.t)) rss in
  let dec = List.map (fun (s, t) -> (c05_sort s, c05_sort t)) dec_raw in
  let ranks = List.init p_ (fun i -> i) in
  let rmaps = List.map (fun p -> c05_remote_of two_b ign_b dec (nat_of_int p)) ranks in
  (* communicators: `built` = the communicator of the RemoteIndices (rank r = process r), `other` = the same processes in the
     opposite rank order; the remote index map of process p as the RemoteIndices on `other` see it *)
  let built = List.map nat_of_int ranks and other = List.map nat_of_int (List.rev ranks) in
  let dec_other = List.rev dec in
  let rmaps_other = List.map (fun p -> c05_remote_of two_b ign_b dec_other (nat_of_int (p_ - 1 - p))) ranks in
  (* the Interface object of the communication: constructor argument, earlier build on `other` + free(), build(), strip() *)
  let iobjs = List.mapi (fun p rm ->
      c05_icobj_run (if ictor then Some other else None)
        ((if ipre then [C05_ICBuild (C05_All, C05_All, List.nth rmaps_other p, Some other); C05_ICFree] else [])
         @ [C05_ICBuild (fsrc, fdst, rm, Some built); C05_ICStrip])) rmaps in
  let ifs = List.map (fun o -> o.c05_ic_ifs) iobjs in
  (* the Interface(other) of the EQ stream: build, free, build with exchanged flags *)
  let cm_str p =
    let rm = List.nth rmaps p in
    let o1 = c05_icobj_run (Some other) [C05_ICBuild (fsrc, fdst, rm, Some built)] in
    let o2 = c05_icobj_run (Some other) [C05_ICBuild (fsrc, fdst, rm, Some built); C05_ICFree; C05_ICBuild (fdst, fsrc, rm, Some built)] in
    let b x = if x then 1 else 0 in
    Printf.sprintf "CM[%d/%d]" (b (c05_comm_eqb (List.nth iobjs p).c05_ic_comm (Some built)))
      (b (c05_comm_eqb o1.c05_ic_comm (Some built) && c05_comm_eqb o2.c05_ic_comm (Some built))) in
  let szs = List.map (fun r -> sizes mode sz r.s r.caps) rss and szt = List.map (fun r -> sizes mode sz r.t r.capt) rss in
  let ifs_ok = List.for_all (fun o -> o <> None) ifs in
  let ifs' = List.map (function Some m -> m | None -> []) ifs in
  let d0s = List.mapi (fun p s -> mk_data 0 p 0 s) szs and d0t = List.mapi (fun p s -> mk_data 0 p 1 s) szt in
  let rebuild = mode0 / 4 in                       (* 0: build; 1: build(pre), build; 2: build(pre), free, build *)
  let bobjs = List.mapi (fun p ((m, ds), dt) ->
      let szs' = (fun l -> c05_getsize ds l) and szd' = (fun l -> c05_getsize (if tc then dt else ds) l) in
      ignore m;
      let pre = if opre then c05_icobj_run None [C05_ICBuild (C05_All, C05_All, List.nth rmaps_other p, Some other)]
                else c05_icobj_run None [C05_ICBuild (C05_All, C05_All, List.nth rmaps p, Some built)] in
      let hist = (if rebuild >= 1 then [C05_BCBuild (szs', szd', pre)] else []) @ (if rebuild = 2 then [C05_BCFree] else [])
                 @ [C05_BCBuild (szs', szd', List.nth iobjs p); C05_BCCommunicate; C05_BCCommunicate; C05_BCCommunicate] in
      c05_bcobj_run hist) (List.combine (List.combine ifs' d0s) d0t) in
  let cms = List.map (fun o -> o.c05_bc_cm) bobjs in
  (* phases *)
  let order_dep = ref false in
  let phase_strs = List.map (fun ph ->
    let fwd = ph <> 1 in
    let ds = List.mapi (fun p s -> mk_data ph p 0 s) szs in
    let dt = if tc then List.mapi (fun p s -> mk_data ph p 1 s) szt else ds in
    let gdata = if fwd then ds else dt and sdata = if fwd then dt else ds in
    let run ord = c05_phase_objs built add fwd bobjs gdata sdata (List.map (fun cm -> ord fwd cm) cms) in
    let ra = run c05_order_asc and rd = run c05_order_desc in
    List.iter2 (fun a d -> match a, d with
      | C05_Ok (da, la), C05_Ok (dd, ld) -> if sort_calls la <> sort_calls ld || (add && da <> dd) then order_dep := true
      | x, y -> if x <> y then order_dep := true) ra rd;
    List.mapi (fun p res ->
      let cm = List.nth cms p in
      let g = c05_gather_log fwd cm.c05_cm_ifs (List.nth gdata p) in
      let sends = c05_sends fwd cm (c05_gather fwd cm.c05_cm_ifs (List.nth gdata p)) in
      let m = join "," (fun (q, msg) -> Printf.sprintf "%d=%d" (int_of_nat q) (esz * List.length msg)) sends in
      match res with
      | C05_Ok (d, log) ->
          let dS = if fwd then (if tc then List.nth ds p else d) else d in
          let dT = if fwd then d else (if tc then List.nth dt p else d) in
          Printf.sprintf "P%d[G:%s S:%s D:%s T:%s M:%s]" ph (calls_str g) (calls_str log) (data_str dS) (data_str dT) m
      | C05_Stuck -> Printf.sprintf "P%d[STUCK]" ph
      | C05_BadOrder -> Printf.sprintf "P%d[BADORDER]" ph
      | C05_SizeMismatch -> Printf.sprintf "P%d[SIZEMISMATCH]" ph) ra) [0; 1; 2] in
  let rentry_str r = Printf.sprintf "%d.%d.%d.%d" (int_of_nat r.c05_re_g) (int_of_nat r.c05_re_l) (int_of_nat r.c05_re_a) (int_of_nat r.c05_re_attr) in
  let model = join " ;; " (fun p ->
    let rm = List.nth rmaps p in
    let ri = join " " (fun (q, (sl, rl)) -> Printf.sprintf "%d:%s/%s" (int_of_nat q) (join "," rentry_str sl) (join "," rentry_str rl)) rm in
    let ifstr = match List.nth ifs p with Some m -> imap_str m | None -> "ASSERT" in
    let (s, t) = List.nth dec p in
    let se = Printf.sprintf "%s/%s/1" (ints (List.map int_of_nat (c05_selection fsrc s))) (ints (List.map int_of_nat (c05_selection fdst t))) in
    let dtstr =
      if not dt then "" else begin
        let mk ph = let ds = List.mapi (fun p s -> mk_data ph p 0 s) szs in
                    let dtt = if tc then List.mapi (fun p s -> mk_data ph p 1 s) szt else ds in (ds, dtt) in
        let (ds3, dt3) = mk 3 in
        let dobjs = List.mapi (fun p rm ->
            c05_dcobj_run ((if opre then [C05_DCBuild (C05_All, C05_All, List.nth rmaps_other p, Some other, List.nth ds3 p, List.nth dt3 p)]
                            else if _seed mod 2 <> 0 then [C05_DCBuild (C05_All, C05_All, rm, Some built, List.nth ds3 p, List.nth dt3 p)] else [])
                           @ [C05_DCBuild (fsrc, fdst, rm, Some built, List.nth ds3 p, List.nth dt3 p); C05_DCCommunicate; C05_DCCommunicate])) rmaps in
        let types = List.map (fun o -> match o.c05_dc_types with Some t -> t | None -> []) dobjs in
        let used = match dobjs with o :: _ -> (match o.c05_dc_comm with Some u -> u | None -> []) | [] -> [] in
        if not (List.for_all (fun o -> c05_comm_eqb o.c05_dc_comm (Some used)) dobjs) then order_dep := true;
        let tstr t = join "," (fun (l, n) -> Printf.sprintf "%d.%d" (int_of_nat l) (int_of_nat n)) t in
        let dts = join " " (fun (q, (st, rt)) -> Printf.sprintf "%d:%s/%s" (int_of_nat q) (tstr st) (tstr rt)) (List.nth types p) in
        let orders = List.map (fun t -> List.map fst t) types in
        let r3 = c05_dt_phase_on used built true types ds3 dt3 orders in
        let (ds4, dt4) = mk 4 in
        let r4 = c05_dt_phase_on used built false types dt4 ds4 orders in
        (* the same through the persistent requests of createRequests: container and datatype of every request *)
        let via_requests fwd sdat rdat =
          List.mapi (fun q tq ->
            let (recvs, _) = if fwd then c05_dt_forward_requests tq else c05_dt_backward_requests tq in
            let cont_of pp c = match c with C05_SendData -> List.nth sdat pp | C05_ReceiveData -> List.nth rdat pp in
            let into = match recvs with r :: _ -> cont_of q r.c05_rq_cont | [] -> (if fwd then List.nth rdat q else List.nth sdat q) in
            let rT pp = match List.find_opt (fun r -> r.c05_rq_proc = pp) recvs with Some r -> r.c05_rq_type | None -> [] in
            let msg pp =
              let pi = int_of_nat pp in
              let (_, sends) = if fwd then c05_dt_forward_requests (List.nth types pi) else c05_dt_backward_requests (List.nth types pi) in
              match List.find_opt (fun r -> int_of_nat r.c05_rq_proc = q) sends with
              | Some r -> c05_dt_pack (cont_of pi r.c05_rq_cont) r.c05_rq_type | None -> [] in
            c05_dt_recv rT msg (List.nth orders q) into) types in
        if via_requests true ds3 dt3 <> r3 || via_requests false ds4 dt4 <> r4 then order_dep := true;
        let d3 = List.nth r3 p and d4 = List.nth r4 p in
        Printf.sprintf " DT[%s] P3[D:%s T:%s] P4[D:%s T:%s]" dts
          (data_str (if tc then List.nth ds3 p else d3)) (data_str d3)
          (data_str d4) (data_str (if tc then List.nth dt4 p else d4))
      end in
    let sw = c05_interface_build fdst fsrc rm in
    let eq = match List.nth ifs p, sw with Some a, Some b -> if c05_iface_eqb a b then 1 else 0 | _ -> 0 in
    Printf.sprintf "r%d RI[%s] IF[%s] SE[%s] SD[1] EQ[1/%d/1/1/1] %s ST[1/1/1] CP[1] %s%s" p ri ifstr se eq (cm_str p) (join " " (fun phs -> List.nth phs p) phase_strs) dtstr) ranks in
  (* spec, from the decomposition alone *)
  let fa = c05_contains fsrc and ft = c05_contains fdst in
  let spec = join " ;; " (fun p ->
    let np = nat_of_int p in
    let si = c05_spec_interface two_b ign_b fa ft dec_raw np in
    let se = Printf.sprintf "%s/%s/1"
        (ints (List.map (fun e -> e.l) (List.filter (fun e -> fa (nat_of_int e.a)) (List.sort (fun x y -> compare x.g y.g) (List.nth rss p).s))))
        (ints (List.map (fun e -> e.l) (List.filter (fun e -> ft (nat_of_int e.a)) (List.sort (fun x y -> compare x.g y.g) (List.nth rss p).t)))) in
    let phs = join " " (fun ph ->
      let fwd = ph <> 1 && ph <> 4 && ph <> 6 in
      let add = add && ph < 3 in
      let two_b' = two_b in ignore two_b';
      let ds = List.mapi (fun p s -> mk_data ph p 0 s) szs in
      let dt = if tc then List.mapi (fun p s -> mk_data ph p 1 s) szt else ds in
      let some d = List.map (List.map (fun v -> Some v)) d in
      if fwd then
        let calls = c05_spec_scatter_fwd two_b ign_b fa ft dec_raw ds np in
        let fin = c05_spec_final add (List.nth dt p) calls in
        Printf.sprintf "P%d[S:%s D:%s T:%s]" ph (calls_str calls) (if tc then odata_str (some (List.nth ds p)) else odata_str fin) (odata_str fin)
      else
        let calls = c05_spec_scatter_bwd two_b ign_b fa ft dec_raw dt np in
        let fin = c05_spec_final add (List.nth ds p) calls in
        Printf.sprintf "P%d[S:%s D:%s T:%s]" ph (calls_str calls) (odata_str fin) (if tc then odata_str (some (List.nth dt p)) else odata_str fin)) ([0; 1; 2] @ (if cgs then [5; 6] else []) @ (if dt then [3; 4] else [])) in
    let sisw = c05_spec_interface two_b ign_b ft fa dec_raw np in
    Printf.sprintf "r%d IF[%s] SE[%s] SD[1] EQ[1/%d/1/1/1] CM[1/1] ST[1/1/1] CP[1] %s" p (imap_str si) se (if c05_iface_eqb si sisw then 1 else 0) phs) ranks in
  ignore ifs_ok;
  print_string model; print_string " || "; print_string spec;
  if !order_dep then print_string " ORDER-DEPENDENT";
  print_newline ()

let () =
  let ic = open_in Sys.argv.(1) in
  (try while true do
      let line = input_line ic in
      (try process line with e -> print_endline ("MODEL-ERROR " ^ Printexc.to_string e))
    done with End_of_file -> ())
