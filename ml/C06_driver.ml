(* C06 model driver: reads the case file (format: see harness/C06/impl.cc), prints one line per case:
     <model obs, code as in the tree> ## <model obs, code after fixes/C06-1> ## <spec: expected public observation>
   model obs = "<public> ||<deep>"  or  "HANG <public so far>"  (no event enabled, some process not returned)
   Every model run is done under two schedules (first-enabled, and seeded from the case seed); if the two
   observations differ the line starts with "SCHEDULE-DEPENDENT" (the theorems say this cannot happen). *)
open C06_model

let rec nat_of_int i = if i <= 0 then O else S (nat_of_int (i - 1))
let rec int_of_nat = function O -> 0 | S n -> 1 + int_of_nat n
let nat_of_int i = (* tail recursive for large buffers *)
  let r = ref O in for _ = 1 to i do r := S !r done; !r
let int_of_nat n = let rec go acc = function O -> acc | S m -> go (acc + 1) m in go 0 n

let w = 64

(* item at position j of a scatter call: the model codes it (p*ni+i)*w + (j mod w); rendered as the harness codes it *)
let decode ni j v = let pi = v / w in if v mod w <> j mod w then -1 else (pi / ni) * 1000000 + (pi mod ni) * 1000 + j

let fmt_call ni src ((i, n), items) =
  Printf.sprintf "%d>%d:%d:%s" src (int_of_nat i) (int_of_nat n)
    (String.concat "." (List.mapi (fun j v -> string_of_int (decode ni j (int_of_nat v))) items))

(* public observation from a list of (src, dst, calls) *)
let public ni np (triples : (int * int * c06_call list) list) =
  String.concat " ; " (List.init np (fun q ->
    let mine = List.sort (fun (a, _, _) (b, _, _) -> compare a b) (List.filter (fun (_, d, _) -> d = q) triples) in
    let calls = List.concat_map (fun (s, _, g) -> List.map (fmt_call ni s) (c06_nonzero g)) mine in
    String.concat " " (("R" ^ string_of_int q) :: calls)))

let deep np (links : c06_link list) =
  let parts = ref [] in
  for p = 0 to np - 1 do for q = 0 to np - 1 do
    List.iter (fun l -> if int_of_nat l.l_src = p && int_of_nat l.l_dst = q && l.l_sent <> [] then
      parts := Printf.sprintf " %d>%d:%s" p q (String.concat "." (List.map (fun n -> string_of_int (int_of_nat n)) l.l_sent)) :: !parts) links
  done done;
  String.concat "" (List.rev !parts)

let lcg s = (s * 2862933555777941757 + 3037000493) land max_int

let () =
  let ic = open_in Sys.argv.(1) in
  (try while true do
    let line = input_line ic in
    let t = Array.of_list (List.filter (fun s -> s <> "") (String.split_on_char ' ' (String.trim line))) in
    let pos = ref 0 in
    let next () = let v = int_of_string t.(!pos) in incr pos; v in
    (try
      let np = next () in let mode = next () in let dir = next () in let buf = next () in let seed = next () in
      let ni = next () in let ne = next () in
      let es = List.init ne (fun _ ->
        let p = next () in let q = next () in
        let n1 = next () in let f = List.init n1 (fun _ -> nat_of_int (next ())) in
        let n2 = next () in let s = List.init n2 (fun _ -> nat_of_int (next ())) in
        { e_p = nat_of_int p; e_q = nat_of_int q; e_first = f; e_second = s }) in
      let sizes = List.init np (fun _ -> List.init ni (fun _ -> nat_of_int (next ()))) in
      let opt () = if !pos < Array.length t then next () else 0 in
      let v = opt () in let _dtype = opt () in let mb = opt () in
      (* the communicator object as the harness builds it on API path v (model of the constructors and special members) *)
      let explicit = if v = 1 || v = 3 then None else Some (nat_of_int buf) in
      let macro = if mb = 0 then None else Some (nat_of_int mb) in
      let one = S O and two = S (S O) and three = S (S (S O)) in
      let a = c06_vsc_ctor explicit macro one one in
      let other () = c06_vsc_ctor (Some (S O)) macro two two in         (* another map, buffer 1 *)
      let obj = match v with
        | 4 -> c06_vsc_copy a two
        | 5 -> let b = c06_vsc_assign (other ()) a false three in c06_vsc_assign b b true (S three)
        | 8 -> let _copy = c06_vsc_copy a two in a                     (* the original is observed *)
        | 9 -> let _b = c06_vsc_assign (other ()) a false three in a
        | 10 -> c06_vsc_move a two
        | 11 -> let (_a', b') = c06_vsc_swap a (other ()) three (S three) (S (S three)) in b'
        | _ -> a in
      if int_of_nat obj.vsc_iface <> 1 then failwith "communicator object points to the wrong interface";
      if not c06_channels_separate then failwith "size and data tags coincide: model assumption broken";
      let buf = int_of_nat obj.vsc_buf in
      let variable = (mode = 1) and backward = (dir = 1) in
      let nbuf = nat_of_int buf and nni = nat_of_int ni and nw = nat_of_int w and nnp = nat_of_int np in
      let run fixnew sched =
        match c06_init variable backward fixnew nbuf nni nw nnp sizes es with
        | None -> "PRECONDITION asymmetric-interface"
        | Some c0 ->
          let fuel = c06_case_fuel c0 in
          let ((c, stopped), k) = c06_run_k fuel sched c0 (c06_counters_init c0) in
          (* variable-size loops: the counters must be zero exactly when every process has returned (C06_counters_end_of_run) *)
          let kzero = List.for_all (fun p -> let (a, b) = k (nat_of_int p) in a = O && b = O) (List.init np (fun p -> p)) in
          let triples = List.map (fun l -> (int_of_nat l.l_src, int_of_nat l.l_dst, c06_log l)) c.c_links in
          if not stopped then "OUTOFFUEL"
          else if variable && c06_returned c <> kzero then "COUNTERS-DISAGREE"
          else if c06_returned c then public ni np triples ^ " ||" ^ deep np c.c_links
          else "HANG " ^ public ni np triples in
      let sched_of seed n = let s = ref (lcg (seed + 12345)) in
        List.init n (fun _ -> s := lcg !s; nat_of_int ((!s lsr 20) mod 60)) in
      let both fixnew =
        let a = run fixnew [] in
        let b = run fixnew (sched_of seed 4000) in
        let c = run fixnew (sched_of (seed * 7 + 1) 4000) in
        if a = b && b = c then a else "SCHEDULE-DEPENDENT [" ^ a ^ "] [" ^ b ^ "] [" ^ c ^ "]" in
      let spec = match c06_spec_case backward nni nw nnp sizes es with
        | None -> "PRECONDITION asymmetric-interface"
        | Some tr -> public ni np (List.map (fun ((s, d), g) -> (int_of_nat s, int_of_nat d, g)) tr) in
      let okc = if variable then c06_case_ok_var backward nbuf nnp sizes es else c06_case_ok_fixed backward nbuf nnp sizes es in
      print_string (both false ^ " ## " ^ both true ^ " ## " ^ spec ^ " ## " ^ (if okc then "pre=1" else "pre=0") ^ "\n")
    with Failure m | Invalid_argument m -> print_string ("BADCASE " ^ m ^ "\n"));
    flush stdout
  done with End_of_file -> ())
