(* C07 model driver.  usage: model <layout-table> <casefile>
   Prints one line per case:   <model observation> | <spec / oracle value>
   Case syntax (tokens separated by blanks; ranks by ';', elements by ',', fields by ':', '_' = empty buffer):
     coll <mpi|seq> <op> <fn> <ty> <mask> <P> <root> <len> <lens|-> <displs|-> <ins> <outs>
     p2p <op> <ty> <mask> <sent> <prefill>
     dt <ty> <count> <via> <srchex> <dsthex>
     pack <prelen> <s|d>|<ty>|<hex> ...
     layout <ty>
   The layout table (one line per type: name sizeof traitdesc commfields allfields packsize extent) is what the
   impl measured with offsetof/address arithmetic/probing; the model builds the type maps from it. *)
open C07_model

let rec nat_of_int i = if i <= 0 then O else S (nat_of_int (i - 1))
let rec int_of_nat = function O -> 0 | S n -> 1 + int_of_nat n
let rec pos_of_int i = if i = 1 then XH else if i land 1 = 0 then XO (pos_of_int (i lsr 1)) else XI (pos_of_int (i lsr 1))
let n_of_int i = if i = 0 then N0 else Npos (pos_of_int i)
let rec int_of_pos = function XH -> 1 | XO p -> 2 * int_of_pos p | XI p -> 2 * int_of_pos p + 1
let int_of_n = function N0 -> 0 | Npos p -> int_of_pos p
let z_of_int i = if i = 0 then Z0 else if i > 0 then Zpos (pos_of_int i) else Zneg (pos_of_int (- i))
let int_of_z = function Z0 -> 0 | Zpos p -> int_of_pos p | Zneg p -> - (int_of_pos p)

(* arbitrary-size decimal <-> Z (tokens reach 2^64-1: beyond OCaml's native int) *)
let z_of_string (s : string) : z =
  let neg = String.length s > 0 && s.[0] = '-' in
  let ds = ref (List.init (String.length s - (if neg then 1 else 0)) (fun i -> Char.code s.[i + (if neg then 1 else 0)] - 48)) in
  let bits = ref [] in                                   (* least significant first *)
  while List.exists (fun d -> d <> 0) !ds do
    let carry = ref 0 in
    ds := List.map (fun d -> let v = !carry * 10 + d in carry := v land 1; v / 2) !ds;
    bits := !carry :: !bits
  done;
  let lsb = List.rev !bits in
  let rec build = function [] -> failwith "z_of_string" | [_] -> XH | b :: r -> if b = 1 then XI (build r) else XO (build r) in
  if lsb = [] then Z0 else if neg then Zneg (build lsb) else Zpos (build lsb)
let string_of_z (v : z) : string =
  let dbl ds add = let carry = ref add in
    let r = List.rev_map (fun d -> let v = 2 * d + !carry in carry := v / 10; v mod 10) (List.rev ds) in
    if !carry > 0 then !carry :: r else r in
  let rec go = function XH -> [1] | XO p -> dbl (go p) 0 | XI p -> dbl (go p) 1 in
  let str p = String.concat "" (List.map string_of_int (go p)) in
  match v with Z0 -> "0" | Zpos p -> str p | Zneg p -> "-" ^ str p

let split c s = String.split_on_char c s
let ints s = if s = "-" || s = "_" then [] else List.map int_of_string (split ',' s)
type elem = string list
let parse_buf (s : string) : elem list = if s = "_" || s = "" then [] else List.map (split ':') (split ',' s)
let show_buf (b : elem list) = if b = [] then "_" else String.concat "," (List.map (String.concat ":") b)
let show_bufs bs = String.concat ";" (List.map show_buf bs)
let show_opt = function Some bs -> show_bufs bs | None -> "ERR overrun"

let merge_of mask : elem -> elem -> elem = fun src dst ->
  List.mapi (fun i d -> if i < String.length mask && mask.[i] = '1' then (try List.nth src i with _ -> d) else d) dst

let op_of = function "plus" | "uplus" -> C07_Plus | "mult" -> C07_Mult | "min" -> C07_Min | "max" -> C07_Max | "xor" -> C07_Xor
  | "maxsum" -> C07_MaxSum | "cmult" -> C07_CMult | s -> failwith ("fn " ^ s)
let fun_of fn ty : elem -> elem -> elem =
  let op = if fn = "mult" && List.mem ty ["cdouble"; "cfloat"; "cldouble"] then C07_CMult else op_of fn in
  fun a b -> List.map string_of_z (c07_apply_op op (List.map z_of_string a) (List.map z_of_string b))

(* ---- layout table ---- *)
type lay = { sz : int; desc : string; comm : (int * int) list; all : (int * int) list; packsize : int; extent : int }
let ranges s = List.map (fun t -> match split ':' t with [a; b] -> (int_of_string a, int_of_string b) | _ -> failwith "range") (split ',' s)
let table : (string, lay) Hashtbl.t = Hashtbl.create 31
let load_table f =
  let ic = open_in f in
  (try while true do
     let t = Array.of_list (List.filter (fun x -> x <> "") (split ' ' (String.trim (input_line ic)))) in
     if Array.length t >= 7 then
       Hashtbl.replace table t.(0) { sz = int_of_string t.(1); desc = t.(2); comm = ranges t.(3); all = ranges t.(4);
                                     packsize = int_of_string t.(5); extent = int_of_string t.(6) }
   done with End_of_file -> ()); close_in ic

(* trait descriptor grammar:  b<size>.<align> | g<sizeof> | fv(n,K,displ) | bu(n,displ) | pr(T1,T2,d1,d2,sizeof) | pl(dattr,sizeof) | ip(TG,dg,dl,PLI,sizeof) *)
let parse_desc (s : string) : c07_tmap =
  let pos = ref 0 in
  let peek () = if !pos < String.length s then s.[!pos] else '\000' in
  let adv () = incr pos in
  let expect c = if peek () = c then adv () else failwith (Printf.sprintf "desc: expected %c at %d in %s" c !pos s) in
  let num () = let st = !pos in while (match peek () with '0'..'9' -> true | _ -> false) do adv () done; int_of_string (String.sub s st (!pos - st)) in
  let rec ty () =
    match peek () with
    | 'b' when !pos + 1 < String.length s && s.[!pos + 1] <> 'u' -> adv (); let sz = num () in expect '.'; let al = num () in c07_dt_basic (nat_of_int sz) (nat_of_int al)
    | 'g' -> adv (); c07_traits_generic (nat_of_int (num ()))
    | 'f' -> adv (); expect 'v'; expect '('; let n = num () in expect ','; let k = ty () in expect ','; let d = num () in expect ')';
        c07_traits_fieldvector (nat_of_int n) k (nat_of_int d)
    | 'b' -> adv (); expect 'u'; expect '('; let n = num () in expect ','; let d = num () in expect ')'; c07_traits_bigunsignedint (nat_of_int n) (nat_of_int d)
    | 'p' -> adv ();
        (match peek () with
         | 'r' -> adv (); expect '('; let a = ty () in expect ','; let b = ty () in expect ','; let d1 = num () in expect ','; let d2 = num () in expect ',';
             let sz = num () in expect ')'; c07_traits_pair a b (nat_of_int d1) (nat_of_int d2) (nat_of_int sz)
         | 'l' -> adv (); expect '('; let da = num () in expect ','; let sz = num () in expect ')'; c07_traits_plocalindex (nat_of_int da) (nat_of_int sz)
         | _ -> failwith "desc p?")
    | 'i' -> adv (); expect 'p'; expect '('; let g = ty () in expect ','; let dg = num () in expect ','; let dl = num () in expect ',';
        let pl = ty () in expect ','; let sz = num () in expect ')'; c07_traits_indexpair g (nat_of_int dg) (nat_of_int dl) pl (nat_of_int sz)
    | c -> failwith (Printf.sprintf "desc: unexpected %c in %s" c s) in
  ty ()
let tm_cache : (string, c07_tmap) Hashtbl.t = Hashtbl.create 31
let tm_of ty = match Hashtbl.find_opt tm_cache ty with Some t -> t | None -> let t = parse_desc (Hashtbl.find table ty).desc in Hashtbl.replace tm_cache ty t; t
let natpairs l = List.map (fun (a, b) -> (nat_of_int a, nat_of_int b)) l

let unhex s = if s = "_" then [] else List.init (String.length s / 2) (fun i -> n_of_int (int_of_string ("0x" ^ String.sub s (2 * i) 2)))
let hexof (bs : n list) = if bs = [] then "_" else String.concat "" (List.map (fun b -> let v = int_of_n b in if v > 255 then ".." else Printf.sprintf "%02x" v) bs)

let rec chunks k l = if l = [] then [] else
  let rec take i l = if i = 0 then ([], l) else match l with [] -> ([], []) | x :: r -> let (a, b) = take (i - 1) r in (x :: a, b) in
  let (a, b) = take k l in a :: chunks k b

(* ---- collectives ---- *)
let coll t =
  let comm = t.(1) and op = t.(2) and fn = t.(3) and ty = t.(4) and mask = t.(5) in
  let p = int_of_string t.(6) and root = int_of_string t.(7) and len = int_of_string t.(8) in
  let lens = ints t.(9) and displs = ints t.(10) in
  let ins = List.map parse_buf (split ';' t.(11)) and outs = List.map parse_buf (split ';' t.(12)) in
  let merge = merge_of mask in
  let nl = List.map nat_of_int in
  let nroot = nat_of_int root and nlen = nat_of_int len in
  let f () = fun_of fn ty in
  (* sum/prod/min/max on an intrinsic element type: the MPI op the SOURCE's ComposeMPIOp table selects (c07_intrinsic_reduce) *)
  let intrinsic = List.mem ty ["int"; "long"; "uchar"; "char"; "short"; "ulong"; "float"; "double"; "ldouble"; "uint"; "ushort"; "d_hi"; "d_lo"; "d_den"; "f_hi"; "f_den"] in
  let builtin i : elem -> elem -> elem = fun a b ->
    List.map2 (fun x y -> string_of_z (c07_intrinsic_reduce (nat_of_int i) (z_of_string x) (z_of_string y))) a b in
  let named fn i = if intrinsic then builtin i else fun_of fn ty in
  let redfn o = match o with "sum1" | "sumN" -> named "plus" 0 | "prod1" | "prodN" -> named "mult" 1
                           | "min1" | "minN" -> named "min" 2 | "max1" | "maxN" -> named "max" 3 | _ -> f () in
  let route rt = Some (c07_spec_apply merge rt ins outs) in
  (* fn = asym: every rank passes its own arrays; the non-root ranks pass garbage (as the harness does) *)
  let asym_args () = List.init p (fun r -> if r = root then (nl lens, nl displs)
                                   else (nl (List.mapi (fun i l -> if r land 1 = 1 then 0 else l + 3 + i + r) lens), nl (List.mapi (fun i _ -> 1000 + 7 * i) displs))) in
  let spec_red fn' l inouts_in = Some (c07_spec_allreduce merge fn' (nat_of_int l) inouts_in outs) in
  let model, spec =
    if comm = "mpi" then
      match op with
      | "sum1" | "prod1" | "min1" | "max1" -> c07_mpi_allreduce merge (redfn op) (S O) ins outs, spec_red (redfn op) 1 ins
      | "sumN" | "prodN" | "minN" | "maxN" -> c07_mpi_allreduce_inplace merge (redfn op) nlen outs, spec_red (redfn op) len outs
      | "allred2" -> c07_mpi_allreduce merge (f ()) nlen ins outs, spec_red (f ()) len ins
      | "allredN" -> c07_mpi_allreduce_inplace merge (f ()) nlen outs, spec_red (f ()) len outs
      | "allredV" -> let l = List.length (List.hd outs) in c07_mpi_allreduce_inplace merge (f ()) (nat_of_int l) outs, spec_red (f ()) l outs
      | "iallred2" -> c07_mpi_allreduce merge (f ()) (S O) ins outs, spec_red (f ()) 1 ins
      | "iallred1" -> c07_mpi_allreduce_inplace merge (f ()) (S O) outs, spec_red (f ()) 1 outs
      | "iallred2V" -> let l = List.length (List.hd outs) in c07_mpi_allreduce merge (f ()) (nat_of_int l) ins outs, spec_red (f ()) l ins
      | "bcast" -> c07_mpi_bcast merge nroot nlen outs, Some (c07_spec_apply merge (c07_rt_bcast nroot nlen) outs outs)
      | "ibcast" -> let l = List.length (List.nth outs root) in
          c07_mpi_bcast merge nroot (nat_of_int l) outs, Some (c07_spec_apply merge (c07_rt_bcast nroot (nat_of_int l)) outs outs)
      | "ibcast1" -> c07_mpi_bcast merge nroot (S O) outs, Some (c07_spec_apply merge (c07_rt_bcast nroot (S O)) outs outs)
      | "gather" -> c07_mpi_gather merge nroot nlen ins outs, route (c07_rt_gather (nat_of_int p) nroot nlen)
      | "igather1" | "igatherV" -> let l = List.length (List.nth ins root) in
          c07_mpi_igather merge nroot ins outs, route (c07_rt_gather (nat_of_int p) nroot (nat_of_int l))
      | "gatherv" when fn = "asym" -> c07_mpi_gatherv_ranks merge nroot ins (asym_args ()) outs, route (c07_rt_gatherv nroot (nl lens) (nl displs))
      | "scatterv" when fn = "asym" -> c07_mpi_scatterv_ranks merge nroot ins (asym_args ()) outs, route (c07_rt_scatterv nroot (nl lens) (nl displs))
      | "gatherv" -> c07_mpi_gatherv merge nroot ins (nl lens) (nl displs) outs, route (c07_rt_gatherv nroot (nl lens) (nl displs))
      | "scatter" -> c07_mpi_scatter merge nroot nlen ins outs, route (c07_rt_scatter nroot nlen)
      | "iscatter1" | "iscatterV" -> let l = List.length (List.nth ins root) / p in
          c07_mpi_iscatter merge nroot ins outs, route (c07_rt_scatter nroot (nat_of_int l))
      | "scatterv" -> c07_mpi_scatterv merge nroot ins (nl lens) (nl displs) outs, route (c07_rt_scatterv nroot (nl lens) (nl displs))
      | "allgather" -> c07_mpi_allgather merge nlen ins outs, route (c07_rt_allgather (nat_of_int p) nlen)
      | "iallgather1" | "iallgatherV" -> let l = List.length (List.hd ins) in
          c07_mpi_iallgather merge ins outs, route (c07_rt_allgather (nat_of_int p) (nat_of_int l))
      | "allgatherv" -> c07_mpi_allgatherv merge ins (nl lens) (nl displs) outs, route (c07_rt_allgatherv (nl lens) (nl displs))
      | _ -> None, None
    else begin
      (* sequential stand-in: P = 1; the spec is the routing / fold at P = 1 *)
      let ins = if fn = "alias" then outs else ins in      (* exact aliasing: the send buffer is the receive buffer *)
      let i0 = List.hd ins and o0 = List.hd outs in
      let one = function Some b -> Some [b] | None -> None in
      let d0 = match displs with d :: _ -> d | [] -> 0 and l0 = match lens with l :: _ -> l | [] -> 0 in
      let idm : elem -> elem -> elem = fun s _ -> s in
      let routeq rt = Some (c07_spec_apply idm rt ins outs) in
      match op with
      | "sum1" | "prod1" | "min1" | "max1" -> Some [i0], Some (c07_spec_allreduce idm (redfn op) (S O) ins outs)     (* return in; *)
      | "sumN" | "prodN" | "minN" | "maxN" | "allredN" | "iallred1" | "bcast" | "ibcast" | "ibcast1" -> Some [o0], Some outs   (* no-ops *)
      | "allred2" -> one (c07_seq_allreduce nlen i0 o0), Some (c07_spec_allreduce idm (f ()) nlen ins outs)
      | "iallred2" -> Some [List.hd i0 :: List.tl o0], Some (c07_spec_allreduce idm (f ()) (S O) ins outs)     (* data_out = data_in *)
      | "gather" -> one (c07_seq_gather nlen i0 o0), routeq (c07_rt_gather (S O) O nlen)
      | "igather1" -> one (c07_seq_igather (List.hd i0) o0), routeq (c07_rt_gather (S O) O (S O))
      | "gatherv" -> one (c07_seq_gatherv (nat_of_int l0) (nat_of_int d0) i0 o0), routeq (c07_rt_gatherv O (nl lens) (nl displs))
      | "scatter" -> one (c07_seq_scatter nlen i0 o0), routeq (c07_rt_scatter O nlen)
      | "iscatter1" -> (match c07_seq_iscatter i0 with Some x -> Some [[x]] | None -> None), routeq (c07_rt_scatter O (S O))
      | "scatterv" -> one (c07_seq_scatterv (nat_of_int l0) (nat_of_int d0) i0 o0), routeq (c07_rt_scatterv O (nl lens) (nl displs))
      | "allgather" -> one (c07_seq_allgather nlen i0 o0), routeq (c07_rt_allgather (S O) nlen)
      | "iallgather1" -> one (c07_seq_iallgather (List.hd i0) o0), routeq (c07_rt_allgather (S O) (S O))
      | "allgatherv" -> one (c07_seq_allgatherv (nat_of_int l0) (nat_of_int d0) i0 o0), routeq (c07_rt_allgatherv (nl lens) (nl displs))
      | _ -> None, None
    end in
  show_opt model, show_opt spec

(* ---- point to point ---- *)
let p2p t =
  let op = t.(1) and ty = t.(2) and mask = t.(3) in
  let sent = parse_buf t.(4) and pre = parse_buf t.(5) in
  let merge = merge_of mask in
  let lay = Hashtbl.find table ty in
  let nf = String.length mask in
  let dflt : elem = List.init nf (fun _ -> "0") in
  (* spec: element i of the result = the sender's element i received onto what the container held there (prior element, or a
     value-initialised one where the container had to grow) *)
  let onto i = match List.nth_opt pre i with Some d -> d | None -> dflt in
  let tsize = nat_of_int lay.packsize in
  let sh = function Some b -> "-;" ^ show_buf b | None -> "-;ERR" in
  match op with
  | "rrecv" | "rrecv_lv" | "rrecv_str" ->
      let m = c07_rrecv merge dflt tsize sent pre in
      (* spec: exactly the sender's sequence (length and values) *)
      sh m, "-;" ^ show_buf (List.mapi (fun i x -> merge x (onto i)) sent)
  | "rrecv_twice" ->
      let rec take k l = if k = 0 then [] else match l with [] -> [] | x :: r -> x :: take (k - 1) r in
      let half = take (List.length sent / 2) sent in
      (match c07_rrecv merge dflt tsize sent pre with
       | None -> "-;ERR", "-;ERR"
       | Some r1 -> (match c07_rrecv merge dflt tsize half r1 with
           | None -> "-;ERR", "-;ERR"
           | Some r2 ->
               let s1 = List.mapi (fun i x -> merge x (onto i)) sent in
               let s2 = List.mapi (fun i x -> merge x (List.nth s1 i)) half in
               "-;" ^ show_buf r1 ^ "/" ^ show_buf r2, "-;" ^ show_buf s1 ^ "/" ^ show_buf s2))
  | "rrecv_status" ->
      let m = c07_rrecv merge dflt tsize sent pre in
      let tail = Printf.sprintf "/src=0,tag=1,count=%d" (List.length sent) in
      (match m with Some b -> "-;" ^ show_buf b ^ tail | None -> "-;ERR"), "-;" ^ show_buf (List.mapi (fun i x -> merge x (onto i)) sent) ^ tail
  | "recv_status" ->
      let m = c07_recv merge sent pre in
      let rec ov s d = match s, d with [], d -> d | x :: s', y :: d' -> merge x y :: ov s' d' | _, [] -> [] in
      let tail = Printf.sprintf "/src=0,tag=1,count=%d" (List.length sent) in
      (match m with Some b -> "-;" ^ show_buf b ^ tail | None -> "-;ERR"), "-;" ^ show_buf (ov sent pre) ^ tail
  | "irecv0" -> "-;ParallelError", "-;ParallelError"
  | "recv" | "isend_irecv" | "isend_irecv_lv" ->
      let m = c07_recv merge sent pre in
      let rec ov s d = match s, d with [], d -> d | x :: s', y :: d' -> merge x y :: ov s' d' | _, [] -> [] in
      sh m, "-;" ^ show_buf (ov sent pre)
  | "scalar" ->
      let m = c07_recv merge [List.hd sent] pre in
      sh m, (match pre with d :: r -> "-;" ^ show_buf (merge (List.hd sent) d :: r) | [] -> "-;ERR")
  | "rrecv_pack" ->
      (* pack: n statics then one dynamic with n elements; the receiver reads them back *)
      let n = List.length sent in
      let total = n * lay.packsize + 4 + n * lay.packsize in
      let s = Printf.sprintf "-;%d/%s/%s/%d/eof" total (show_buf sent) (show_buf sent) total in
      s, s
  | _ -> "UNSUPPORTED", "UNSUPPORTED"

(* ---- datatype content ---- *)
let dt t =
  let ty = t.(1) and count = int_of_string t.(2) in
  let src = unhex t.(4) and dst = unhex t.(5) in
  let lay = Hashtbl.find table ty in
  let tm = tm_of ty in
  let m = c07_transfer tm (nat_of_int count) src dst in
  let s = c07_spec_transfer (natpairs lay.comm) (nat_of_int lay.sz) (nat_of_int count) src dst in
  "-;" ^ hexof m, "-;" ^ hexof s

let layout t =
  let ty = t.(1) in
  let lay = Hashtbl.find table ty in
  let tm = tm_of ty in
  let ents = List.sort compare (List.map (fun (a, b) -> (int_of_nat a, int_of_nat b)) tm.c07_tm_entries) in
  (* merge adjacent entries for comparison with the probed field ranges *)
  let rec coalesce = function (a, s) :: (b, s2) :: r when a + s = b -> coalesce ((a, s + s2) :: r) | x :: r -> x :: coalesce r | [] -> [] in
  let sh l = String.concat "," (List.map (fun (a, b) -> Printf.sprintf "%d:%d" a b) (coalesce (List.sort compare l))) in
  let tlb = List.fold_left (fun m (a, _) -> min m a) max_int ents and tub = List.fold_left (fun m (a, b) -> max m (a + b)) 0 ents in
  (* MPIData view of one object: FieldVector (data()/size(), no resize) is n x K, everything else registered here one object *)
  let isfv = String.length ty > 3 && String.sub ty 0 3 = "fv_" in
  let mdv = if isfv then (match tm.c07_tm_entries with (_, s) :: _ -> c07_md_range (nat_of_int (List.length tm.c07_tm_entries)) (c07_dt_basic s s) | [] -> c07_md_object tm)
            else c07_md_object tm in
  let sg = List.map int_of_nat (c07_md_signature mdv) in
  let mdcount = int_of_nat mdv.c07_md_count in
  let tsz = if mdcount = 0 then 0 else List.fold_left (+) 0 sg / mdcount in
  (* igather / iallgather of this object into a vector of 2 such objects: the two sides agree; both views are the same layout *)
  let dout = c07_md_range (S (S O)) tm in
  let ga = c07_igather_args O O mdv dout and aa = c07_iallgather_args mdv dout in
  let agree = c07_xa_recv_sig ga = c07_xa_send_sig ga && c07_xa_recv_sig aa = c07_xa_send_sig aa in
  Printf.sprintf "size=%d extent=%d sizeof=%d lb=0 tlb=%d tub=%d md=%dx%d%s" (int_of_nat (c07_tm_size tm)) (int_of_nat tm.c07_tm_extent) lay.sz tlb tub
    mdcount tsz (if c07_pack_writes_prefix (if isfv then C07_KRange false else C07_KObject) then "d" else "s"),
  Printf.sprintf "wf=%b entries=%s comm=%s tbl=%b views=%b agree=%b" (c07_tm_wfb tm (nat_of_int lay.sz)) (sh ents) (sh lay.comm) c07_traits_table_ok
    (c07_md_same_layout mdv (c07_md_object tm)) agree

(* ---- MPIPack script ---- *)
let pack t =
  let prelen = int_of_string t.(1) in
  let items = List.map (fun s -> match split '|' s with [k; ty; h] -> (k, ty, unhex h) | _ -> failwith "item") (List.tl (List.tl (Array.to_list t))) in
  let pk = List.fold_left (fun pk (k, ty, bytes) ->
      let lay = Hashtbl.find table ty and tm = tm_of ty in
      let objs = chunks lay.sz bytes in
      let els = List.map (c07_obj_values tm) objs in
      c07_pkn_write pk (c07_tm_ptype tm (k = "d") (S O)) els) c07_pk_empty items in
  let b = Buffer.create 256 in
  Buffer.add_string b (hexof pk.c07_pk_buf);
  Buffer.add_string b (Printf.sprintf "/%d/%d/%s" (int_of_nat (c07_pk_tell pk)) (int_of_nat (c07_pk_size pk)) (if c07_pk_eof pk then "eof" else "noeof"));
  let pk = ref (c07_pk_seek pk O) in
  let okv = ref true in
  List.iter (fun (k, ty, _) ->
      let lay = Hashtbl.find table ty and tm = tm_of ty in
      match c07_pkn_read !pk (c07_tm_ptype tm (k = "d") (S O)) with
      | None -> okv := false; Buffer.add_string b "/ERR"
      | Some (els, pk') ->
          pk := pk';
          if k = "s" then
            Buffer.add_string b ("/" ^ hexof (c07_obj_store tm (List.hd els) (List.init lay.sz (fun _ -> n_of_int 0xA5))))
          else begin
            (* vector<T>(prelen) resized to the read length: padding of elements is indeterminate ("..") *)
            ignore prelen;
            let unk = List.init lay.sz (fun i -> if List.exists (fun (o, s) -> i >= o && i < o + s) lay.all then N0 else n_of_int 256) in
            let s = String.concat "" (List.map (fun e -> hexof (c07_obj_store tm e unk)) els) in
            Buffer.add_string b ("/" ^ (if s = "" then "_" else s))
          end) items;
  Buffer.add_string b (Printf.sprintf "/%d/%s" (int_of_nat (c07_pk_tell !pk)) (if c07_pk_eof !pk then "eof" else "noeof"));
  (* spec / oracle: what was written is read back: per item the masked object bytes of the input *)
  let sb = Buffer.create 256 in
  List.iter (fun (k, ty, bytes) ->
      let lay = Hashtbl.find table ty in
      let keep fields pad = List.concat (List.map (fun o -> List.mapi (fun i x -> if List.exists (fun (a, s) -> i >= a && i < a + s) fields then x else pad) o) (chunks lay.sz bytes)) in
      let s = if k = "s" then hexof (keep lay.comm (n_of_int 0xA5)) else hexof (keep lay.all (n_of_int 256)) in
      Buffer.add_string sb ("/" ^ s)) items;
  Buffer.contents b, Buffer.contents sb


(* ---- MPIPack script with seeks / overwrites / a hop to rank 1 (see harness: pks) ---- *)
let pks t =
  let prelen = int_of_string t.(1) in
  ignore prelen;
  let ops = List.tl (List.tl (Array.to_list t)) in
  let st pk = Printf.sprintf "%d,%d,%s" (int_of_nat (c07_pk_size pk)) (int_of_nat (c07_pk_tell pk)) (if c07_pk_eof pk then "e" else "n") in
  let pk = ref c07_pk_empty in
  let r0 = Buffer.create 256 and r1 = Buffer.create 256 and sp = Buffer.create 256 in
  let cur = ref r0 in
  let hop = ref false in
  List.iter (fun op ->
      match split '|' op with
      | ["x"] ->
          (* send: the whole buffer travels; rrecv(MPIPack(comm)) resizes to the message: cursor 0 *)
          hop := true; cur := r1; pk := c07_pk_seek !pk O;
          Buffer.add_string !cur ("/X" ^ hexof !pk.c07_pk_buf ^ "," ^ st !pk); Buffer.add_string sp "/-"
      | ["n"; n] -> pk := c07_pkn_resize c07_pk_empty (nat_of_int (int_of_string n));      (* MPIPack(comm, size) *)
          Buffer.add_string !cur ("/Z" ^ hexof !pk.c07_pk_buf ^ "," ^ st !pk); Buffer.add_string sp "/-"
      | ["x"; junk; pos] ->
          (* rrecv into a pack that already holds other bytes and a cursor *)
          hop := true; cur := r1;
          (match c07_pack_rrecv N0 !pk.c07_pk_buf { c07_pk_buf = unhex junk; c07_pk_pos = nat_of_int (int_of_string pos) } with
           | Some q -> pk := q | None -> failwith "pack_rrecv");
          Buffer.add_string !cur ("/X" ^ hexof !pk.c07_pk_buf ^ "," ^ st !pk); Buffer.add_string sp "/-"
      | ["m"] -> pk := c07_pk_move_assign { c07_pk_buf = [n_of_int 106; n_of_int 107; N0; N0; N0]; c07_pk_pos = S O }
                         (c07_pk_move_assign { c07_pk_buf = []; c07_pk_pos = O } !pk);
          Buffer.add_string !cur ("/Z" ^ hexof !pk.c07_pk_buf ^ "," ^ st !pk); Buffer.add_string sp "/-"   (* moves keep everything *)
      | ["q"; h] ->      (* a pack as payload: dynamic item of the inner buffer's bytes *)
          let els = List.map (fun b -> [b]) (unhex h) in
          let pt = { c07_pt_dynamic = true; c07_pt_elem = [S O]; c07_pt_count = S O } in
          Buffer.add_string sp ("/B" ^ hexof (c07_pkn_item_bytes pt els));
          pk := c07_pkn_write !pk pt els;
          Buffer.add_string !cur ("/B" ^ hexof !pk.c07_pk_buf ^ "," ^ st !pk)
      | "u" :: _ ->
          Buffer.add_string sp "/-";
          (match c07_pkn_read !pk { c07_pt_dynamic = true; c07_pt_elem = [S O]; c07_pt_count = S O } with
           | None -> Buffer.add_string !cur "/RERR"
           | Some (els, pk') -> pk := pk'; Buffer.add_string !cur ("/R" ^ hexof (List.concat els) ^ "," ^ st !pk))
      | ["z"; n] -> pk := c07_pkn_resize !pk (nat_of_int (int_of_string n));
          Buffer.add_string !cur ("/Z" ^ hexof !pk.c07_pk_buf ^ "," ^ st !pk); Buffer.add_string sp "/-"
      | ["g"; n] -> pk := c07_pkn_enlarge !pk (nat_of_int (int_of_string n));
          Buffer.add_string !cur ("/Z" ^ hexof !pk.c07_pk_buf ^ "," ^ st !pk); Buffer.add_string sp "/-"
      | ["k"; pos] ->
          pk := c07_pk_seek !pk (if pos = "end" then c07_pk_size !pk else nat_of_int (int_of_string pos));
          Buffer.add_string !cur ("/K" ^ st !pk); Buffer.add_string sp "/-"
      | [k; ty; h] when k = "s" || k = "d" ->
          let lay = Hashtbl.find table ty and tm = tm_of ty in
          let els = List.map (c07_obj_values tm) (chunks lay.sz (unhex h)) in
          let pt = c07_tm_ptype tm (k = "d") (S O) in
          Buffer.add_string sp ("/B" ^ hexof (c07_pkn_item_bytes pt els));
          pk := c07_pkn_write !pk pt els;
          Buffer.add_string !cur ("/B" ^ hexof !pk.c07_pk_buf ^ "," ^ st !pk)
      | ["r"; k; ty; _] ->
          let lay = Hashtbl.find table ty and tm = tm_of ty in
          Buffer.add_string sp "/-";
          (match c07_pkn_read !pk (c07_tm_ptype tm (k = "d") (S O)) with
           | None -> Buffer.add_string !cur "/RERR"
           | Some (els, pk') ->
               pk := pk';
               let v = if k = "s" then hexof (c07_obj_store tm (List.hd els) (List.init lay.sz (fun _ -> n_of_int 0xA5)))
                 else begin
                   let unk = List.init lay.sz (fun i -> if List.exists (fun (o, s) -> i >= o && i < o + s) lay.all then N0 else n_of_int 256) in
                   let s = String.concat "" (List.map (fun e -> hexof (c07_obj_store tm e unk)) els) in if s = "" then "_" else s end in
               Buffer.add_string !cur ("/R" ^ v ^ "," ^ st !pk))
      | _ -> failwith ("pks op " ^ op)) ops;
  let s0 = if Buffer.length r0 = 0 then "-" else Buffer.contents r0 in
  let s1 = if !hop then Buffer.contents r1 else "-" in
  s0 ^ ";" ^ s1, Buffer.contents sp

let () =
  load_table Sys.argv.(1);
  let ic = open_in Sys.argv.(2) in
  (try while true do
    let line = input_line ic in
    let t = Array.of_list (List.filter (fun x -> x <> "") (split ' ' (String.trim line))) in
    (* @dup / @rev / @self: which communicator the impl uses; the model is indexed by the rank IN that communicator, so nothing changes
       (@self: the check compares every rank with the one-process result) *)
    let t = if Array.length t > 0 && String.length t.(0) > 0 && t.(0).[0] = '@' then Array.sub t 1 (Array.length t - 1) else t in
    let model, spec =
      try (match t.(0) with
        | "coll" -> coll t
        | "p2p" -> p2p t
        | "dt" -> dt t
        | "pack" -> pack t
        | "pks" -> pks t
        | "layout" -> layout t
        | _ -> "UNKNOWN", "UNKNOWN")
      with e -> "MODEL-EXC " ^ Printexc.to_string e, "MODEL-EXC" in
    print_string model; print_string " | "; print_endline spec
  done with End_of_file -> ())
