(* C08 model driver.  usage: model cases.txt
   One line per case, in the canonical form of harness/C08/impl.cc:
     ev2 <thrq> <thrid> <flags> m00 m01 m10 m11    binary64 bit patterns; the extracted Flocq instance of the 2x2 closed form;
                                           flags: 'a'|'r' absolute/relative identity threshold, 'c'|'p' second vector from columns/perpendicular
     ev2f ...                              the same on binary32 bit patterns (FieldMatrix<float,2,2>)
     k3 eig0|ortho|eig1 ...                the 3x3 eigenvector kernels on binary64 bit patterns (see harness/C08/impl.cc)
     e1 <m>                                n = 1
     ho <routine> <d|f|l> n info e...      the LAPACK hand-over with the same scripted LAPACK stub as the mock build
                                           of the impl harness (w = 1000+i, a/vr/vl = 2000/5000/4000 + k, ...) *)
open C08_model

let rec pos_of_int i = if i = 1 then XH else if i land 1 = 0 then XO (pos_of_int (i lsr 1)) else XI (pos_of_int (i lsr 1))
let z_of_int i = if i = 0 then Z0 else if i > 0 then Zpos (pos_of_int i) else Zneg (pos_of_int (-i))
let rec nat_of_int i = if i = 0 then O else S (nat_of_int (i - 1))
let rec int_of_nat = function O -> 0 | S n -> 1 + int_of_nat n
let rec int_of_pos = function XH -> 1 | XO p -> 2 * int_of_pos p | XI p -> 2 * int_of_pos p + 1
let int_of_z = function Z0 -> 0 | Zpos p -> int_of_pos p | Zneg p -> - (int_of_pos p)
let z_of_hex (s : string) : z =
  let r = ref Z0 in
  String.iter (fun c -> r := Z.add (Z.mul !r (z_of_int 16)) (z_of_int (int_of_string ("0x" ^ String.make 1 c)))) s; !r
let hex_of_z (w : int) (x : z) : string =
  let rec go x k acc = if k = 0 then acc else
    let (q, r) = Z.div_eucl x (z_of_int 16) in go q (k - 1) (Printf.sprintf "%x" (int_of_z r) ^ acc) in
  go x w ""

let fb (s : string) = c08_b64_of_bits (z_of_hex s)
let hx v = match c08_b64_to_bits v with None -> "nan" | Some z -> hex_of_z 16 z
let fb32 (s : string) = c08_b32_of_bits (z_of_hex s)
let hx32 v = match c08_b32_to_bits v with None -> "nan" | Some z -> hex_of_z 8 z
let res_str f = function C08_Ok a -> f a | C08_MathError -> "EXC MathError" | C08_DivByZero -> "DIVBYZERO"

let ints l = String.concat "," (List.map string_of_int l)
let rows ll = String.concat ";" (List.map ints ll)
let cplx l = String.concat "," (List.map (fun (r, i) -> Printf.sprintf "%d+%di" r i) l)
let jc b = if b then "v" else "n"

let () =
  let ic = open_in Sys.argv.(1) in
  (try while true do
    let line = input_line ic in
    let t = Array.of_list (List.filter (fun s -> s <> "") (String.split_on_char ' ' (String.trim line))) in
    let out =
      try
        match t.(0) with
        | "ev2" ->
          let thrq = fb t.(1) and thrid = fb t.(2) in
          let rel = String.contains t.(3) 'r' and perp = String.contains t.(3) 'p' in
          let m = (((fb t.(4), fb t.(5)), fb t.(6)), fb t.(7)) in
          let v = c08_b64_eigenvalues2 thrq m and f = c08_b64_eigenvaluesvectors2 rel perp thrq thrid m in
          "vals " ^ res_str (fun (a, b) -> hx a ^ " " ^ hx b) v ^ " | vecs " ^
          res_str (fun ((a, b), ((x0, y0), (x1, y1))) -> String.concat " " (List.map hx [a; b; x0; y0; x1; y1])) f
        | "ev2f" ->
          let thrq = fb32 t.(1) and thrid = fb32 t.(2) in
          let rel = String.contains t.(3) 'r' and perp = String.contains t.(3) 'p' in
          let m = (((fb32 t.(4), fb32 t.(5)), fb32 t.(6)), fb32 t.(7)) in
          let v = c08_b32_eigenvalues2 thrq m and f = c08_b32_eigenvaluesvectors2 rel perp thrq thrid m in
          "vals " ^ res_str (fun (a, b) -> hx32 a ^ " " ^ hx32 b) v ^ " | vecs " ^
          res_str (fun ((a, b), ((x0, y0), (x1, y1))) -> String.concat " " (List.map hx32 [a; b; x0; y0; x1; y1])) f
        | "k3" ->
          let v3 i = ((fb t.(i), fb t.(i + 1)), fb t.(i + 2)) in
          let m3 i = ((v3 i, v3 (i + 3)), v3 (i + 6)) in
          let hx3 ((a, b), c) = hx a ^ " " ^ hx b ^ " " ^ hx c in
          (match t.(1) with
           | "eig0" -> res_str (fun (_, v) -> hx3 v) (c08_b64_eig0 (m3 2) (fb t.(11)))
           | "ortho" -> res_str (fun (u, v) -> hx3 u ^ " " ^ hx3 v) (c08_b64_orthocomp (v3 2))
           | "eig1" -> res_str hx3 (c08_b64_eig1 (m3 2) (v3 11) (fb t.(14)))
           | _ -> "BAD k3")
        | "e1" ->
          let (w, v) = c08_eig1 c08_b64_ops (fb t.(1)) in
          "vals " ^ hx w ^ " | vecs " ^ hx w ^ " " ^ hx v
        | "ho" ->
          let routine = t.(1) in
          let n = int_of_string t.(3) and info = int_of_string t.(4) in
          let e = Array.init (n * n) (fun k -> int_of_string t.(5 + k)) in
          let a i j = e.(int_of_nat i * n + int_of_nat j) in
          let log = ref "none" in
          let syev (args : int c08_syev_args) =
            let nn = int_of_nat args.c08_sy_n in
            log := Printf.sprintf "syev jobz=%s uplo=%s n=%d lda=%d lwork=%d a=%s" (jc args.c08_jobz)
                     (if args.c08_uplo_upper then "u" else "l") nn (int_of_nat args.c08_sy_lda) (int_of_nat args.c08_sy_lwork) (ints args.c08_sy_a);
            ((List.init nn (fun i -> 1000 + i), List.init (nn * nn) (fun k -> if args.c08_jobz then 2000 + k else -1)), z_of_int info) in
          let geev (args : int c08_geev_args) =
            let nn = int_of_nat args.c08_ge_n in
            log := Printf.sprintf "geev jobvl=%s jobvr=%s n=%d lda=%d ldvl=%d ldvr=%d lwork=%d vl=%s vr=%s a=%s" (jc args.c08_jobvl) (jc args.c08_jobvr)
                     nn (int_of_nat args.c08_ge_lda) (int_of_nat args.c08_ge_ldvl) (int_of_nat args.c08_ge_ldvr) (int_of_nat args.c08_ge_lwork)
                     (if args.c08_jobvl then "ptr" else "null") (if args.c08_jobvr then "ptr" else "null") (ints args.c08_ge_a);
            ((((List.init nn (fun i -> 1000 + i), List.init nn (fun i -> 3000 + i)),
               (if args.c08_jobvl then List.init (nn * nn) (fun k -> 4000 + k) else [])),
              (if args.c08_jobvr then List.init (nn * nn) (fun k -> 5000 + k) else [])), z_of_int info) in
          let nn = nat_of_int n in
          let lres f = function C08_LOk x -> f x | C08_InvalidState -> "EXC InvalidStateException" in
          let wv (w, v) = "w=" ^ ints w ^ (match v with Some vv -> " V=" ^ rows vv | None -> "") in
          let ev (l, v) = "ev=" ^ cplx l ^ (match v with Some vv -> " V=" ^ rows vv | None -> "") in
          let fin r = "CALL " ^ !log ^ " | " ^ r in
          (match routine with
           | "lvecs" | "vecs" -> fin (lres wv (c08_eigenvaluesvectors_lapack (-99) syev nn a))
           | "lvals" -> fin (lres (fun w -> "w=" ^ ints w) (c08_eigenvalues_lapack (-99) syev nn a))
           | "vals" -> fin (lres (fun w -> "w=" ^ ints w) (c08_eigenvalues_generic (-99) syev nn a))
           | "fmnonsym" -> fin (lres (fun l -> "ev=" ^ cplx l) (c08_nonsym_fm geev nn a))
           | "dyn0" | "dyn1" ->
             let want = routine = "dyn1" in
             let cur = fin (lres ev (c08_nonsym_dyn (-99) geev want nn a)) in
             let fixd = fin (lres ev (c08_nonsym_dyn_fixed (-99) geev want nn a)) in
             let src = fin (lres ev (c08_nonsym_dyn_src (-99) geev want nn a)) in     (* the call as the source now writes it (Params_gen) *)
             cur ^ " || " ^ fixd ^ " || " ^ src
           | _ -> "BAD routine")
        | _ -> "BAD case"
      with _ -> "BAD case (exception in driver)" in
    print_string out; print_newline ()
  done with End_of_file -> ())
