(* C09 model driver: reads the case file (argv[1]) and prints ONE line per case.
   op cases :  op <T> <S> <m> <opid> <form> ...      ->  the plan: output vectors separated by " ; ", lanes by
               blanks, every lane a term naming the scalar computation (a<k> = lane k of operand a in memory
               order, sa/sb/sc scalar operands, #<id>(..) a C++ scalar operator, sel/or/and/not/ltmax/ltmin)
   lu cases :  lu <solve|invert|det> <n> <S> <piv> <hex doubles: A[r][c][l] ... then b[r][l] ...>
               (also mv, norms; dlu = DynamicMatrix)
               ->  <model of the S-lane call> | <spec: scalar call per lane, separated by " ; ">
                   | <trace: per step pivot rows per lane and nonsingular mask>
   The LU model is extracted from Coq with the carrier operations as parameters; here they are IEEE doubles. *)
open C09_model

let rec nat_of_int i = if i <= 0 then O else S (nat_of_int (i - 1))
let rec int_of_nat = function O -> 0 | S n -> 1 + int_of_nat n

let fsub (a : float) (b : float) = a -. b
let fmul (a : float) (b : float) = a *. b
let fdiv (a : float) (b : float) = a /. b
let fabs (a : float) = Float.abs a
let fgt (a : float) (b : float) = a > b
let fnz (a : float) = a <> 0.0

let hex (x : float) = if x <> x then "nan" else Printf.sprintf "%016Lx" (Int64.bits_of_float x)
let unhex s = Int64.float_of_bits (Int64.of_string ("0x" ^ s))
let vec v = String.concat " " (List.map hex v)

let rec term_str = function
  | C09_L (o, l) -> Printf.sprintf "%c%d" (Char.chr (97 + int_of_nat o)) (int_of_nat l)
  | C09_S o -> Printf.sprintf "s%c" (Char.chr (97 + int_of_nat o))
  | C09_K b -> if b then "T" else "F"
  | C09_App (op, args) ->
      let n = int_of_nat op in
      let name = (match n with 0 -> "sel" | 1 -> "or" | 2 -> "and" | 3 -> "not" | 4 -> "ltmax" | 5 -> "ltmin"
                             | _ -> "#" ^ string_of_int n) in
      name ^ "(" ^ String.concat "," (List.map term_str args) ^ ")"

let form_of = function
  | "u" -> C09_Unary | "vv" -> C09_VV | "vs" -> C09_VS | "sv" -> C09_SV | "avv" -> C09_AssignVV | "avs" -> C09_AssignVS
  | "pre" -> C09_Prefix | "post" -> C09_Postfix | "cond" -> C09_Cond | "condb" -> C09_CondBool
  | "any" -> C09_AnyTrue | "all" -> C09_AllTrue | "anyf" -> C09_AnyFalse | "allf" -> C09_AllFalse
  | "hmax" -> C09_HMax | "hmin" -> C09_HMin | "lane" -> C09_LaneAll | "bcast" -> C09_Bcast | "icast" -> C09_ImplCast
  | "mor" -> C09_MaskOr | "mand" -> C09_MaskAnd
  | s -> failwith ("form " ^ s)

let res_vec = function C09_Ok x -> String.concat " " (List.map vec x) | C09_FMatrixError _ -> "EXC FMatrixError"
let res_vec1 = function C09_Ok x -> vec x | C09_FMatrixError _ -> "EXC FMatrixError"
let res_mat = function C09_Ok m -> String.concat " " (List.map (fun r -> String.concat " " (List.map vec r)) m)
                     | C09_FMatrixError _ -> "EXC FMatrixError"
let res_mat1 = function C09_Ok m -> String.concat " " (List.map vec m) | C09_FMatrixError _ -> "EXC FMatrixError"

let () =
  let ic = open_in Sys.argv.(1) in
  (try while true do
    let line = input_line ic in
    let t = Array.of_list (List.filter (fun s -> s <> "") (String.split_on_char ' ' (String.trim line))) in
    let out =
      try
        match t.(0) with
        | "op" ->
            let s = int_of_string t.(2) and m = int_of_string t.(3) and opid = int_of_string t.(4) in
            let plan = c09_plan (form_of t.(5)) (nat_of_int opid) (nat_of_int s) (nat_of_int m) in
            String.concat " ; " (List.map (fun v -> String.concat " " (List.map term_str v)) plan)
        | "lu" | "dlu" ->
            let kind = t.(1) and n = int_of_string t.(2) and s = int_of_string t.(3) and piv = t.(4) = "1" in
            let pos = ref 5 in
            let next () = let x = unhex t.(!pos) in incr pos; x in
            let a = List.init n (fun _ -> List.init n (fun _ -> List.init s (fun _ -> next ()))) in
            let nn = nat_of_int n and w = nat_of_int s in
            let trace () =
              let st = c09_v_init 1.0 w nn a [] in
              let tr = c09_v_trace fsub fmul fdiv fabs fgt fnz 0.0 1.0 (-1.0) w piv nn nn O st in
              "piv=" ^ String.concat ";" (List.map (fun (p, _) -> String.concat "," (List.map (fun x -> string_of_int (int_of_nat x)) p)) tr)
              ^ " ok=" ^ String.concat ";" (List.map (fun (_, k) -> String.concat "" (List.map (fun b -> if b then "1" else "0") k)) tr) in
            (match kind with
             | "solve" ->
                 let b = List.init n (fun _ -> List.init s (fun _ -> next ())) in
                 let r = c09_v_solve fsub fmul fdiv fabs fgt fnz 0.0 1.0 (-1.0) w piv nn a b in
                 let sp = c09_spec_solve fsub fmul fdiv fabs fgt fnz 0.0 1.0 (-1.0) w piv nn a b in
                 res_vec r ^ " | " ^ String.concat " ; " (List.map res_vec1 sp) ^ " | " ^ trace ()
             | "invert" ->
                 let r = c09_v_invert fsub fmul fdiv fabs fgt fnz 0.0 1.0 (-1.0) w piv nn a in
                 let sp = c09_spec_invert fsub fmul fdiv fabs fgt fnz 0.0 1.0 (-1.0) w piv nn a in
                 res_mat r ^ " | " ^ String.concat " ; " (List.map res_mat1 sp) ^ " | " ^ trace ()
             | "det" ->
                 let d = vec (c09_v_det fsub fmul fdiv fabs fgt fnz 0.0 1.0 (-1.0) w piv nn a) in
                 let sp = String.concat " ; " (List.map hex (c09_spec_det fsub fmul fdiv fabs fgt fnz 0.0 1.0 (-1.0) w piv nn a)) in
                 d ^ " | " ^ sp ^ " | " ^ trace ()
             | "mv" ->
                 let x = List.init n (fun _ -> List.init s (fun _ -> next ())) in
                 let fadd (a : float) (b : float) = a +. b in
                 let r = c09_v_mv fadd fmul 0.0 w a x in
                 let lanes = List.init s (fun l -> vec (c09_s_mv fadd fmul 0.0 (c09_lane_mat 0.0 (nat_of_int l) a) (c09_lane_vec 0.0 (nat_of_int l) x))) in
                 String.concat " " (List.map vec r) ^ " | " ^ String.concat " ; " lanes
             | "norms" ->
                 (* only infinity_norm is modelled (HasNaN<double> = true, forwarded to the S-lane type): S-lane result | scalar per lane *)
                 let fadd (a : float) (b : float) = a +. b and flt (a : float) (b : float) = a < b in
                 let v = vec (c09_v_infnorm 0.0 fabs fadd fmul fdiv flt 0.0 1.0 w true a) in
                 let lanes = List.init s (fun l -> hex (c09_s_infnorm fabs fadd fmul fdiv flt 0.0 1.0 true (c09_lane_mat 0.0 (nat_of_int l) a))) in
                 v ^ " | " ^ String.concat " ; " lanes
             | _ -> "-")
        | _ -> "UNKNOWN-CASE"
      with e -> "MODEL-ERROR " ^ Printexc.to_string e in
    print_endline out
  done with End_of_file -> ())
