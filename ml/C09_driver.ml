(* C09 model driver: reads the case file (argv[1]) and prints ONE line per case.
   op cases :  op <T> <S> <m> <opid> <form> ...      ->  the plan: output vectors separated by " ; ", lanes by
               blanks, every lane a term naming the scalar computation (a<k> = lane k of operand a in memory
               order, sa/sb/sc scalar operands, #<id>(..) a C++ scalar operator, sel/or/and/not/ltmax/ltmin)
   lu cases :  lu <solve|invert|det> <n> <S> <piv> <hex doubles: A[r][c][l] ... then b[r][l] ...>
               (also mv, norms; dlu = DynamicMatrix)
               ->  <model of the S-lane call> | <spec: scalar call per lane, separated by " ; ">
                   | <trace: per step pivot rows per lane and nonsingular mask>
   The LU model is extracted from Coq with the carrier operations as parameters; here they are IEEE doubles. *)
open C09_model

let rec nat_of_int i = if i <= 0 then O else S (nat_of_int (i - 1))
let rec int_of_nat = function O -> 0 | S n -> 1 + int_of_nat n

let fsub (a : float) (b : float) = a -. b
let fmul (a : float) (b : float) = a *. b
let fdiv (a : float) (b : float) = a /. b
let fabs (a : float) = Float.abs a
let fgt (a : float) (b : float) = a > b
let fnz (a : float) = a <> 0.0

let hex (x : float) = if x <> x then "nan" else Printf.sprintf "%016Lx" (Int64.bits_of_float x)
let unhex s = Int64.float_of_bits (Int64.of_string ("0x" ^ s))
let vec v = String.concat " " (List.map hex v)

let rec term_str = function
  | C09_L (o, l) -> Printf.sprintf "%c%d" (Char.chr (97 + int_of_nat o)) (int_of_nat l)
  | C09_S o -> Printf.sprintf "s%c" (Char.chr (97 + int_of_nat o))
  | C09_K b -> if b then "T" else "F"
  | C09_App (op, args) ->
      let n = int_of_nat op in
      let name = (match n with 0 -> "sel" | 1 -> "or" | 2 -> "and" | 3 -> "not" | 4 -> "ltmax" | 5 -> "ltmin"
                             | _ -> "#" ^ string_of_int n) in
      name ^ "(" ^ String.concat "," (List.map term_str args) ^ ")"

let form_of = function
  | "u" -> C09_Unary | "vv" -> C09_VV | "vs" -> C09_VS | "sv" -> C09_SV | "avv" -> C09_AssignVV | "avs" -> C09_AssignVS
  | "pre" -> C09_Prefix | "post" -> C09_Postfix | "cond" -> C09_Cond | "condb" -> C09_CondBool
  | "any" -> C09_AnyTrue | "all" -> C09_AllTrue | "anyf" -> C09_AnyFalse | "allf" -> C09_AllFalse
  | "hmax" -> C09_HMax | "hmin" -> C09_HMin | "lane" -> C09_LaneAll | "bcast" -> C09_Bcast | "icast" -> C09_ImplCast
  | "mor" -> C09_MaskOr | "mand" -> C09_MaskAnd
  | "copy" | "conv" -> C09_Copy | "swap" -> C09_Swap | "cond2" -> C09_Cond | "vsi" | "vsu" -> C09_VS | "morself" -> C09_MaskOrSelf | "mandself" -> C09_MaskAndSelf
  | "vvself" -> C09_VVSelf | "avvself" -> C09_AssignVVSelf | "condself" -> C09_CondSelf | "condsame" -> C09_CondSame | "condmask" -> C09_CondMask
  | s ->
      (* aliasing forms with the aliased lane: avsk:<k> avsl:<k> vsk:<k> vsl:<k> svk:<k> *)
      (match String.split_on_char ':' s with
       | [("avsk" | "avsl"); k] -> C09_AssignVSLane (nat_of_int (int_of_string k))
       | [("vsk" | "vsl"); k] -> C09_VSLane (nat_of_int (int_of_string k))
       | ["svk"; k] -> C09_SVLane (nat_of_int (int_of_string k))
       | ["bcastk"; k] -> C09_BcastLane (nat_of_int (int_of_string k))
       | _ -> failwith ("form " ^ s))

let dash s = if s = "" then "-" else s
let res_vec = function C09_Ok x -> dash (String.concat " " (List.map vec x)) | C09_FMatrixError _ -> "EXC FMatrixError"
let res_vec1 = function C09_Ok x -> dash (vec x) | C09_FMatrixError _ -> "EXC FMatrixError"
let res_mat = function C09_Ok m -> dash (String.concat " " (List.map (fun r -> String.concat " " (List.map vec r)) m))
                     | C09_FMatrixError _ -> "EXC FMatrixError"
let res_mat1 = function C09_Ok m -> dash (String.concat " " (List.map vec m)) | C09_FMatrixError _ -> "EXC FMatrixError"

(* type descriptor tokens: simd <S> <A> ... scalar <name> *)
let scalar_ty = function
  | "bool" -> C09_TScalar (nat_of_int 0, false, true) | "long" -> C09_TScalar (nat_of_int 1, false, true)
  | "float" -> C09_TScalar (nat_of_int 2, true, true) | "double" -> C09_TScalar (nat_of_int 3, true, true)
  | "int" -> C09_TScalar (nat_of_int 4, false, true) | "unsigned" -> C09_TScalar (nat_of_int 5, false, true)
  | "short" -> C09_TScalar (nat_of_int 6, false, true) | "char" -> C09_TScalar (nat_of_int 7, false, true)
  | "cdouble" -> C09_TScalar (nat_of_int 8, true, true) | "ulong" -> C09_TScalar (nat_of_int 9, false, true) | "llong" -> C09_TScalar (nat_of_int 10, false, true)
  | "ushort" -> C09_TScalar (nat_of_int 11, false, true) | "uchar" -> C09_TScalar (nat_of_int 12, false, true) | "schar" -> C09_TScalar (nat_of_int 13, false, true)
  | s -> failwith ("scalar type " ^ s)
let rec parse_ty (t : string array) (i : int) : c09_ty =
  match t.(i) with
  | "simd" -> C09_TSimd (nat_of_int (int_of_string t.(i + 1)), nat_of_int (int_of_string t.(i + 2)), parse_ty t (i + 3))
  | "scalar" -> scalar_ty t.(i + 1)
  | s -> failwith ("type descriptor " ^ s)
let traits_line (ty : c09_ty) : string =
  let v = Array.of_list (List.map (fun (a, b) -> (int_of_nat a, int_of_nat b)) (c09_traits ty)) in
  let ab k = Printf.sprintf "%d/%d" (fst v.(k)) (snd v.(k)) in
  Printf.sprintf "hasnan=%s isnumber=%s lanes=%d mask_lanes=%d mask_scalar_bool=%d mask_hasnan=%s rebind_same=%d rebind_long_lanes=%d rebind_long_scalar=%d rebind_long_hasnan=%s rebind_float_hasnan=%s rebind_float_isnumber=%s rebind_back=%d align_ok=1"
    (ab 0) (ab 1) (fst v.(2)) (fst v.(3)) (snd v.(3)) (ab 4) (fst v.(5)) (fst v.(6)) (snd v.(6)) (ab 7) (ab 8) (ab 9) (fst v.(10))

let () =
  let ic = open_in Sys.argv.(1) in
  (try while true do
    let line = input_line ic in
    let t = Array.of_list (List.filter (fun s -> s <> "") (String.split_on_char ' ' (String.trim line))) in
    let out =
      try
        let head = List.hd (String.split_on_char ':' t.(0)) in
        let tag = (match String.split_on_char ':' t.(0) with [_; x] -> x | _ -> "") in
        match head with
        | "op" when t.(5) = "traits" -> traits_line (parse_ty t 7)
        | ("lu" | "dlu") when t.(1) = "traits" ->
            let ty = parse_ty t 5 in traits_line ty ^ " | fm_hasnan=" ^ (if c09_ty_hasnan ty then "1" else "0")
        | ("lu" | "dlu") when tag = "f8" -> "-"      (* float carrier: lane-vs-scalar oracle only *)
        | "op" ->
            let s = int_of_string t.(2) and m = int_of_string t.(3) and opid = int_of_string t.(4) in
            let plan = c09_plan (form_of t.(5)) (nat_of_int opid) (nat_of_int s) (nat_of_int m) in
            String.concat " ; " (List.map (fun v -> String.concat " " (List.map term_str v)) plan)
        | "lu" | "dlu" ->
            let kind = t.(1) and n = int_of_string t.(2) and s = int_of_string t.(3) and piv = t.(4) = "1" in
            let pos = ref 5 in
            let next () = let x = unhex t.(!pos) in incr pos; x in
            let a = List.init n (fun _ -> List.init n (fun _ -> List.init s (fun _ -> next ()))) in
            let nn = nat_of_int n and w = nat_of_int s in
            let trace () =
              let st = c09_v_init 1.0 w nn a [] in
              let tr = c09_v_trace fsub fmul fdiv fabs fgt fnz 0.0 1.0 (-1.0) w piv nn nn O st in
              "piv=" ^ String.concat ";" (List.map (fun (p, _) -> String.concat "," (List.map (fun x -> string_of_int (int_of_nat x)) p)) tr)
              ^ " ok=" ^ String.concat ";" (List.map (fun (_, k) -> String.concat "" (List.map (fun b -> if b then "1" else "0") k)) tr) in
            let fadd (a : float) (b : float) = a +. b and fneg (a : float) = -. a and flt (a : float) (b : float) = a < b
            and fabs2 (a : float) = a *. a and fsqrt (a : float) = Float.sqrt a in
            let lm l = c09_lane_mat 0.0 (nat_of_int l) a in
            let lanes_of f = String.concat " ; " (List.init s f) in
            (match kind with
             (* the complete member functions: closed forms for n <= 3, LU otherwise *)
             | "solve" ->
                 let b = List.init n (fun _ -> List.init s (fun _ -> next ())) in
                 let r = c09_v_solve_full fadd fsub fmul fdiv fabs fgt fnz 0.0 1.0 (-1.0) w piv nn a b in
                 res_vec r ^ " | " ^ lanes_of (fun l -> res_vec1 (c09_s_solve_full fadd fsub fmul fdiv fabs fgt fnz 0.0 1.0 (-1.0) piv nn (lm l) (c09_lane_vec 0.0 (nat_of_int l) b)))
                 ^ " | " ^ trace ()
             | "invert" ->
                 let r = c09_v_invert_full fadd fsub fmul fdiv fneg fabs fgt fnz 0.0 1.0 (-1.0) w piv nn a in
                 res_mat r ^ " | " ^ lanes_of (fun l -> res_mat1 (c09_s_invert_full fadd fsub fmul fdiv fneg fabs fgt fnz 0.0 1.0 (-1.0) piv nn (lm l)))
                 ^ " | " ^ trace ()
             | "det" ->
                 vec (c09_v_det_full fadd fsub fmul fdiv fabs fgt fnz 0.0 1.0 (-1.0) w piv nn a)
                 ^ " | " ^ lanes_of (fun l -> hex (c09_s_det_full fadd fsub fmul fdiv fabs fgt fnz 0.0 1.0 (-1.0) piv nn (lm l))) ^ " | " ^ trace ()
             | "mv" ->
                 let x = List.init n (fun _ -> List.init s (fun _ -> next ())) in
                 let r = c09_v_mv fadd fmul 0.0 w a x in
                 dash (String.concat " " (List.map vec r)) ^ " | " ^ lanes_of (fun l -> dash (vec (c09_s_mv fadd fmul 0.0 (lm l) (c09_lane_vec 0.0 (nat_of_int l) x))))
             | "prods" ->
                 (* mtv(b), umv(b, y=b), mmv(b, y=b), usmv(0.5, b, y=b), b*b *)
                 let x = List.init n (fun _ -> List.init s (fun _ -> next ())) in
                 let alpha = List.init s (fun _ -> 0.5) in
                 let vv y = String.concat " " (List.map vec y) in
                 let simd = vv (c09_v_mtv fadd fmul 0.0 w nn a x) ^ " " ^ vv (c09_v_umv fadd fmul 0.0 w a x x) ^ " " ^ vv (c09_v_mmv fsub fmul 0.0 w a x x)
                            ^ " " ^ vv (c09_v_usmv fadd fmul 0.0 w alpha a x x) ^ " " ^ vec (c09_v_dot fadd fmul 0.0 w x x) in
                 simd ^ " | " ^ lanes_of (fun l -> let xl = c09_lane_vec 0.0 (nat_of_int l) x in
                     vec (c09_s_mtv fadd fmul 0.0 nn (lm l) xl) ^ " " ^ vec (c09_s_umv fadd fmul (lm l) xl xl) ^ " " ^ vec (c09_s_mmv fsub fmul (lm l) xl xl)
                     ^ " " ^ vec (c09_s_usmv fadd fmul 0.5 (lm l) xl xl) ^ " " ^ hex (c09_s_dot fadd fmul 0.0 xl xl))
             | "norms" ->
                 (* frobenius_norm2, frobenius_norm, infinity_norm, infinity_norm_real; row 0: one_norm, one_norm_real, two_norm2, two_norm, infinity_norm,
                    infinity_norm_real; last row: infinity_norm, infinity_norm_real.  HasNaN<double> = true (forwarded to the S-lane type); for a real field
                    the *_real variants are the same functions *)
                 let row k = List.nth a k in
                 let inf = c09_v_infnorm 0.0 fabs fadd fmul fdiv flt 0.0 1.0 w true a in
                 let one r = c09_v_one_norm 0.0 fabs fadd 0.0 w r and vinf r = c09_v_vec_infnorm 0.0 fabs fadd fmul fdiv flt 0.0 1.0 w true r in
                 let simd = [ c09_v_frobenius_norm2 0.0 fabs fabs2 fadd 0.0 w a; c09_v_frobenius_norm 0.0 fabs fabs2 fadd fsqrt 0.0 w a; inf; inf;
                              one (row 0); one (row 0); c09_v_two_norm2 0.0 fabs fabs2 fadd 0.0 w (row 0); c09_v_two_norm 0.0 fabs fabs2 fadd fsqrt 0.0 w (row 0);
                              vinf (row 0); vinf (row 0); vinf (row (n - 1)); vinf (row (n - 1)) ] in
                 String.concat " " (List.map vec simd) ^ " | " ^ lanes_of (fun l ->
                     let m = lm l in let r0 = List.nth m 0 and rn = List.nth m (n - 1) in
                     let sinf = c09_s_infnorm fabs fadd fmul fdiv flt 0.0 1.0 true m and sone = c09_s_one_norm fabs fadd 0.0 r0
                     and svi r = c09_s_vec_infnorm fabs fadd fmul fdiv flt 0.0 1.0 true r in
                     vec [ c09_s_frobenius_norm2 fabs2 fadd 0.0 m; c09_s_frobenius_norm fabs2 fadd fsqrt 0.0 m; sinf; sinf; sone; sone;
                           c09_s_two_norm2 fabs2 fadd 0.0 r0; c09_s_two_norm fabs2 fadd fsqrt 0.0 r0; svi r0; svi r0; svi rn; svi rn ])
             | _ -> "-")
        | _ -> "UNKNOWN-CASE"
      with e -> "MODEL-ERROR " ^ Printexc.to_string e in
    print_endline out
  done with End_of_file -> ())
