(* C10 model driver: reads the case file, prints one line per case:
     <model observation> | <spec value of the result, for the oracle>
   usage: model cases.txt [impl.out]
   With impl.out given, a third field is printed: the oracle's verdict on the impl's line. *)
open C10_model

let rec pos_of_int i = if i = 1 then XH else if i land 1 = 0 then XO (pos_of_int (i lsr 1)) else XI (pos_of_int (i lsr 1))
let n_of_int i = if i = 0 then N0 else Npos (pos_of_int i)
let rec int_of_pos = function XH -> 1 | XO p -> 2 * int_of_pos p | XI p -> 2 * int_of_pos p + 1
let int_of_n = function N0 -> 0 | Npos p -> int_of_pos p
let rec nat_of_int i = if i = 0 then O else S (nat_of_int (i - 1))
let rec int_of_nat = function O -> 0 | S n -> 1 + int_of_nat n
let char_of_ascii (Ascii (b0,b1,b2,b3,b4,b5,b6,b7)) =
  let f b k = if b then 1 lsl k else 0 in
  Char.chr (f b0 0 + f b1 1 + f b2 2 + f b3 3 + f b4 4 + f b5 5 + f b6 6 + f b7 7)

(* hex string (most significant first, 4 hex chars per digit) <-> little-endian digit list *)
let big_of_hex (s : string) : n list =
  let nd = String.length s / 4 in
  List.init nd (fun i -> n_of_int (int_of_string ("0x" ^ String.sub s (4 * (nd - 1 - i)) 4)))
let hex_of_big (b : n list) : string =
  String.concat "" (List.rev_map (fun d -> Printf.sprintf "%04x" (int_of_n d)) b)
(* arbitrary-size N from a hex string *)
let n_of_hex (s : string) : n =
  let r = ref N0 in
  String.iter (fun c -> r := N.add (N.mul !r (n_of_int 16)) (n_of_int (int_of_string ("0x" ^ String.make 1 c)))) s; !r
let hex_of_n (x : n) : string =
  let rec go x acc = if x = N0 then acc else
    go (N.div x (n_of_int 16)) (Printf.sprintf "%x" (int_of_n (N.modulo x (n_of_int 16))) ^ acc) in
  let s = go x "" in if s = "" then "0" else s
let pad_hex n s = let w = 4 * n in if String.length s >= w then String.sub s (String.length s - w) w else String.make (w - String.length s) '0' ^ s

let res_str = function C10_Ok v -> hex_of_big v | C10_MathError -> "EXC MathError" | C10_OutOfFuel -> "OUTOFFUEL"
let b01 b = if b then "1" else "0"
let canon_me (m, e) = (* canonical m*2^e with m odd (or 0 0) *)
  let m = ref (int_of_n m) and e = ref (int_of_n e) in
  if !m = 0 then "0 0" else begin while !m land 1 = 0 do m := !m lsr 1; incr e done; Printf.sprintf "%d %d" !m !e end

let () =
  let ic = open_in Sys.argv.(1) in
  (try while true do
    let line = input_line ic in
    let t = Array.of_list (String.split_on_char ' ' (String.trim line)) in
    let k = int_of_string t.(0) and op = t.(1) in
    let nn = c10_ndigits (n_of_int k) and n2 = c10_ndigits (n_of_int (2 * k)) in
    let n = int_of_nat nn in
    let a () = big_of_hex t.(2) and b () = big_of_hex t.(3) in
    let va () = c10_val (a ()) and vb () = c10_val (b ()) in
    let spec_bin o = (match c10_spec_binop nn o (va ()) (vb ()) with Some v -> pad_hex n (hex_of_n v) | None -> "EXC MathError") in
    let fuel () = nat_of_int (int_of_string t.(4)) in
    let model, spec = match op with
      | "add" -> hex_of_big (c10_add (a ()) (b ())), spec_bin OpAdd
      | "sub" -> hex_of_big (c10_sub (a ()) (b ())), spec_bin OpSub
      | "mul" -> hex_of_big (c10_mul n2 (a ()) (b ())), spec_bin OpMul
      | "div" -> res_str (c10_div (fuel ()) (a ()) (b ())), spec_bin OpDiv
      | "mod" -> res_str (c10_mod (fuel ()) (a ()) (b ())), spec_bin OpMod
      | "and" -> hex_of_big (c10_and (a ()) (b ())), spec_bin OpAnd
      | "or" -> hex_of_big (c10_or (a ()) (b ())), spec_bin OpOr
      | "xor" -> hex_of_big (c10_xor (a ()) (b ())), spec_bin OpXor
      | "not" -> hex_of_big (c10_not (a ())), pad_hex n (hex_of_n (N.sub (N.sub (N.pow (n_of_int 2) (c10_spec_width nn)) (n_of_int 1)) (va ())))
      | "incr" -> hex_of_big (c10_incr (a ())), pad_hex n (hex_of_n (N.modulo (N.add (va ()) (n_of_int 1)) (N.pow (n_of_int 2) (c10_spec_width nn))))
      | "shl" -> let s = n_of_int (int_of_string t.(3)) in hex_of_big (c10_shl (a ()) s), pad_hex n (hex_of_n (c10_spec_shift nn true (va ()) s))
      | "shr" -> let s = n_of_int (int_of_string t.(3)) in hex_of_big (c10_shr (a ()) s), pad_hex n (hex_of_n (c10_spec_shift nn false (va ()) s))
      | "lt" -> b01 (c10_lt (a ()) (b ())), b01 (c10_spec_cmp CmpLt (va ()) (vb ()))
      | "le" -> b01 (c10_le (a ()) (b ())), b01 (c10_spec_cmp CmpLe (va ()) (vb ()))
      | "gt" -> b01 (c10_gt (a ()) (b ())), b01 (c10_spec_cmp CmpGt (va ()) (vb ()))
      | "ge" -> b01 (c10_ge (a ()) (b ())), b01 (c10_spec_cmp CmpGe (va ()) (vb ()))
      | "eq" -> b01 (c10_eq (a ()) (b ())), b01 (c10_spec_cmp CmpEq (va ()) (vb ()))
      | "ne" -> b01 (c10_ne (a ()) (b ())), b01 (c10_spec_cmp CmpNe (va ()) (vb ()))
      | "assign" -> let x = n_of_hex t.(2) in hex_of_big (c10_assign nn x), pad_hex n (hex_of_n (N.modulo x (N.pow (n_of_int 2) (c10_spec_width nn))))
      | "signed" -> let x = int_of_string t.(2) in
          if x < 0 then "EXC Exception", "EXC Exception"
          else hex_of_big (c10_assign nn (n_of_int x)), pad_hex n (hex_of_n (N.modulo (n_of_int x) (N.pow (n_of_int 2) (c10_spec_width nn))))
      | "default" -> hex_of_big (c10_assign nn N0), pad_hex n "0"
      | "limits" -> let z = hex_of_big (c10_min nn) in "101111 2 " ^ z ^ z ^ z ^ z ^ z, "101111 2 " ^ String.concat "" (List.init 5 (fun _ -> pad_hex n "0"))
      | "mixl" | "mixr" ->
          let big = big_of_hex t.(3) and u = c10_assign nn (n_of_hex t.(4)) in
          let (x, y) = if op = "mixl" then (big, u) else (u, big) in
          let vx = c10_val x and vy = c10_val y in
          let sp o = (match c10_spec_binop nn o vx vy with Some v -> pad_hex n (hex_of_n v) | None -> "EXC MathError") in
          let fuel = nat_of_int (int_of_string t.(5)) in
          (match t.(2) with
           | "add" -> hex_of_big (c10_add x y), sp OpAdd
           | "sub" -> hex_of_big (c10_sub x y), sp OpSub
           | "mul" -> hex_of_big (c10_mul n2 x y), sp OpMul
           | "div" -> res_str (c10_div fuel x y), sp OpDiv
           | "mod" -> res_str (c10_mod fuel x y), sp OpMod
           | _ -> "UNKNOWN-OP", "UNKNOWN-OP")
      | "stream" -> let s = String.concat "" (List.map (fun c -> String.make 1 (char_of_ascii c)) (c10_print (a ()))) in s ^ "|42", pad_hex n (hex_of_n (va ())) ^ "|42"
      | "touint" -> string_of_int (int_of_n (c10_touint (a ()))), string_of_int (int_of_n (N.modulo (va ()) (N.pow (n_of_int 2) (n_of_int 32))))
      | "todouble" -> canon_me (c10_todouble (a ())), "VAL " ^ hex_of_n (va ())
      | "print" -> String.concat "" (List.map (fun c -> String.make 1 (char_of_ascii c)) (c10_print (a ()))), pad_hex n (hex_of_n (va ()))
      | "max" -> hex_of_big (c10_max nn), pad_hex n (hex_of_n (N.sub (N.pow (n_of_int 2) (c10_spec_width nn)) (n_of_int 1)))
      | "min" -> hex_of_big (c10_min nn), pad_hex n "0"
      | "digits" -> string_of_int (int_of_n (c10_limit_digits nn)), string_of_int (16 * n)
      | "hasheq" -> b01 (c10_eq (a ()) (b ())), b01 (c10_spec_cmp CmpEq (va ()) (vb ()))
      | _ -> "UNKNOWN-OP", "UNKNOWN-OP" in
    print_string model; print_string " | "; print_endline spec
  done with End_of_file -> ())
