(* C10 model driver: reads the case file, prints one line per case:
     <model observation> | <spec value of the result, for the oracle>
   usage: model cases.txt [impl.out]
   With impl.out given, a third field is printed: the oracle's verdict on the impl's line. *)
open C10_model

let rec pos_of_int i = if i = 1 then XH else if i land 1 = 0 then XO (pos_of_int (i lsr 1)) else XI (pos_of_int (i lsr 1))
let n_of_int i = if i = 0 then N0 else Npos (pos_of_int i)
let rec int_of_pos = function XH -> 1 | XO p -> 2 * int_of_pos p | XI p -> 2 * int_of_pos p + 1
let int_of_n = function N0 -> 0 | Npos p -> int_of_pos p
let rec nat_of_int i = if i = 0 then O else S (nat_of_int (i - 1))
let rec int_of_nat = function O -> 0 | S n -> 1 + int_of_nat n
let char_of_ascii (Ascii (b0,b1,b2,b3,b4,b5,b6,b7)) =
  let f b k = if b then 1 lsl k else 0 in
  Char.chr (f b0 0 + f b1 1 + f b2 2 + f b3 3 + f b4 4 + f b5 5 + f b6 6 + f b7 7)

(* hex string (most significant first, 4 hex chars per digit) <-> little-endian digit list *)
let big_of_hex (s : string) : n list =
  let nd = String.length s / 4 in
  List.init nd (fun i -> n_of_int (int_of_string ("0x" ^ String.sub s (4 * (nd - 1 - i)) 4)))
let hex_of_big (b : n list) : string =
  String.concat "" (List.rev_map (fun d -> Printf.sprintf "%04x" (int_of_n d)) b)
(* arbitrary-size N from a hex string *)
let n_of_hex (s : string) : n =
  (* bits most significant first -> positive, linear *)
  let bits = List.concat_map (fun c -> let v = int_of_string ("0x" ^ String.make 1 c) in [v lsr 3 land 1; v lsr 2 land 1; v lsr 1 land 1; v land 1])
               (List.init (String.length s) (String.get s)) in
  let rec strip = function 0 :: r -> strip r | l -> l in
  match strip bits with
  | [] -> N0
  | _ :: rest -> Npos (List.fold_left (fun p b -> if b = 1 then XI p else XO p) XH rest)
let hex_of_n (x : n) : string =
  (* linear in the number of bits: positive is its own list of bits, least significant first *)
  let rec bits p acc = match p with XH -> 1 :: acc | XO q -> bits q (0 :: acc) | XI q -> bits q (1 :: acc) in
  match x with N0 -> "0" | Npos p ->
    let msb_first = bits p [] in
    let len = List.length msb_first in
    let padded = List.init ((4 - len mod 4) mod 4) (fun _ -> 0) @ msb_first in
    let buf = Buffer.create (len / 4 + 2) in
    let rec go = function
      | a :: b :: c :: d :: r -> Buffer.add_string buf (Printf.sprintf "%x" (8 * a + 4 * b + 2 * c + d)); go r
      | _ -> () in
    go padded; Buffer.contents buf
let pad_hex n s = let w = 4 * n in if String.length s >= w then String.sub s (String.length s - w) w else String.make (w - String.length s) '0' ^ s

let res_str = function C10_Ok v -> hex_of_big v | C10_MathError -> "EXC MathError" | C10_OutOfFuel -> "OUTOFFUEL"
  | C10_Exception -> "EXC Exception" | C10_OutOfBounds -> "OUTOFBOUNDS"
let rec z_of_int i = if i = 0 then Z0 else if i > 0 then Zpos (pos_of_int i) else Zneg (pos_of_int (- i))
let binop_of = function "add" -> Some OpAdd | "sub" -> Some OpSub | "mul" -> Some OpMul | "div" -> Some OpDiv | "mod" -> Some OpMod
  | "and" -> Some OpAnd | "or" -> Some OpOr | "xor" -> Some OpXor | _ -> None
let n_of_dec (s : string) : n =
  let r = ref N0 in
  String.iter (fun c -> r := N.add (N.mul !r (n_of_int 10)) (n_of_int (Char.code c - 48))) s; !r
let z_of_dec (s : string) : z =
  if String.length s > 0 && s.[0] = '-' then (match n_of_dec (String.sub s 1 (String.length s - 1)) with N0 -> Z0 | Npos p -> Zneg p)
  else (match n_of_dec s with N0 -> Z0 | Npos p -> Zpos p)
let cmp_of = function "lt" -> CmpLt | "le" -> CmpLe | "gt" -> CmpGt | "ge" -> CmpGe | "eq" -> CmpEq | _ -> CmpNe
let instr_of (tok : string) : c10_instr =
  let f = Array.of_list (String.split_on_char ':' tok) in
  let nat i = nat_of_int (int_of_string f.(i)) in
  let bop i = (match binop_of f.(i) with Some o -> o | None -> failwith "op") in
  match f.(0) with
  | "C" -> C10_ICompound (bop 1, nat 2, nat 3)
  | "B" -> C10_IBinary (bop 1, nat 2, nat 3, nat 4)
  | "I" -> C10_IIncr (nat 1)
  | "N" -> C10_INot (nat 1, nat 2)
  | "L" -> C10_IShl (nat 1, nat 2, n_of_int (int_of_string f.(3)))
  | "R" -> C10_IShr (nat 1, nat 2, n_of_int (int_of_string f.(3)))
  | "A" | "M" | "K" | "X" -> C10_ICopy (nat 1, nat 2)
  | "S" -> C10_ISwap (nat 1, nat 2)
  | "U" -> C10_IBuiltinU (bop 1, nat 2, n_of_hex f.(3))
  | "G" -> C10_IBuiltinS (bop 1, nat 2, z_of_dec f.(3))
  | "V" -> C10_IBuiltinLeft (bop 1, nat 2, n_of_hex f.(3))
  | "Q" -> C10_ICmp (cmp_of f.(1), nat 2, nat 3)
  | "QU" | "QR" -> C10_ICmpU (cmp_of f.(1), nat 2, n_of_hex f.(3))
  | _ -> failwith "instr"
let ev_str l = String.concat "" (List.map (function C10_EvBool b -> if b then "1" else "0" | C10_EvMathError -> "M" | C10_EvException -> "X"
                                                   | C10_EvOutOfFuel -> "F" | C10_EvOutOfBounds -> "O") l)
let ascii_of_char c = let k = Char.code c in let b i = (k lsr i) land 1 = 1 in Ascii (b 0, b 1, b 2, b 3, b 4, b 5, b 6, b 7)
let string_of_chars l = String.concat "" (List.map (fun c -> String.make 1 (char_of_ascii c)) l)
let b01 b = if b then "1" else "0"
let canon_me (m, e) = (* canonical m*2^e with m odd (or 0 0) *)
  let m = ref (int_of_n m) and e = ref (int_of_n e) in
  if !m = 0 then "0 0" else begin while !m land 1 = 0 do m := !m lsr 1; incr e done; Printf.sprintf "%d %d" !m !e end

let () =
  let ic = open_in Sys.argv.(1) in
  (try while true do
    let line = input_line ic in
    let t = Array.of_list (String.split_on_char ' ' (String.trim line)) in
    let k = int_of_string t.(0) and op = t.(1) in
    let nn = c10_ndigits (n_of_int k) and n2 = c10_ndigits (n_of_int (2 * k)) in
    let n = int_of_nat nn in
    let a () = big_of_hex t.(2) and b () = big_of_hex t.(3) in
    let va () = c10_val (a ()) and vb () = c10_val (b ()) in
    let spec_bin o = (match c10_spec_binop nn o (va ()) (vb ()) with Some v -> pad_hex n (hex_of_n v) | None -> "EXC MathError") in
    let fuel () = nat_of_int (int_of_string t.(4)) in
    let model, spec = match op with
      | "add" -> hex_of_big (c10_add (a ()) (b ())), spec_bin OpAdd
      | "sub" -> hex_of_big (c10_sub (a ()) (b ())), spec_bin OpSub
      | "mul" -> hex_of_big (c10_mul n2 (a ()) (b ())), spec_bin OpMul
      | "div" -> res_str (c10_div (fuel ()) (a ()) (b ())), spec_bin OpDiv
      | "mod" -> res_str (c10_mod (fuel ()) (a ()) (b ())), spec_bin OpMod
      | "and" -> hex_of_big (c10_and (a ()) (b ())), spec_bin OpAnd
      | "or" -> hex_of_big (c10_or (a ()) (b ())), spec_bin OpOr
      | "xor" -> hex_of_big (c10_xor (a ()) (b ())), spec_bin OpXor
      | "not" -> hex_of_big (c10_not (a ())), pad_hex n (hex_of_n (N.sub (N.sub (N.pow (n_of_int 2) (c10_spec_width nn)) (n_of_int 1)) (va ())))
      | "incr" -> hex_of_big (c10_incr (a ())), pad_hex n (hex_of_n (N.modulo (N.add (va ()) (n_of_int 1)) (N.pow (n_of_int 2) (c10_spec_width nn))))
      | "shl" -> let s = n_of_int (int_of_string t.(3)) in hex_of_big (c10_shl (a ()) s), pad_hex n (hex_of_n (c10_spec_shift nn true (va ()) s))
      | "shr" -> let s = n_of_int (int_of_string t.(3)) in res_str (c10_shr_checked (a ()) s), pad_hex n (hex_of_n (c10_spec_shift nn false (va ()) s))
      | "lt" -> b01 (c10_lt (a ()) (b ())), b01 (c10_spec_cmp CmpLt (va ()) (vb ()))
      | "le" -> b01 (c10_le (a ()) (b ())), b01 (c10_spec_cmp CmpLe (va ()) (vb ()))
      | "gt" -> b01 (c10_gt (a ()) (b ())), b01 (c10_spec_cmp CmpGt (va ()) (vb ()))
      | "ge" -> b01 (c10_ge (a ()) (b ())), b01 (c10_spec_cmp CmpGe (va ()) (vb ()))
      | "eq" -> b01 (c10_eq (a ()) (b ())), b01 (c10_spec_cmp CmpEq (va ()) (vb ()))
      | "ne" -> b01 (c10_ne (a ()) (b ())), b01 (c10_spec_cmp CmpNe (va ()) (vb ()))
      | "assign" -> let x = n_of_hex t.(2) in hex_of_big (c10_assign nn x), pad_hex n (hex_of_n (N.modulo x (N.pow (n_of_int 2) (c10_spec_width nn))))
      | "signed" -> let x = z_of_dec t.(2) in
          res_str (c10_ctor_signed nn x),
          (match x with Zneg _ -> "EXC Exception"
           | Z0 -> pad_hex n "0"
           | Zpos p -> pad_hex n (hex_of_n (N.modulo (Npos p) (N.pow (n_of_int 2) (c10_spec_width nn)))))
      | "default" -> hex_of_big (c10_ctor_default nn), pad_hex n "0"
      | "limits" ->
          let l = c10_numeric_limits nn in
          let i x = string_of_int (int_of_n x) in
          let flags = String.concat "" (List.map b01 [l.c10_l_is_specialized; l.c10_l_is_signed; l.c10_l_is_integer; l.c10_l_is_exact;
             l.c10_l_has_infinity; l.c10_l_has_quiet_NaN; l.c10_l_has_signaling_NaN; l.c10_l_has_denorm_loss; l.c10_l_is_iec559;
             l.c10_l_is_bounded; l.c10_l_is_modulo; l.c10_l_traps; l.c10_l_tinyness_before]) in
          let ints = String.concat "," [i l.c10_l_radix; i l.c10_l_digits; i l.c10_l_min_exponent; i l.c10_l_min_exponent10; i l.c10_l_max_exponent;
             i l.c10_l_max_exponent10; i l.c10_l_has_denorm_plus1; i l.c10_l_round_style_plus1] in
          let vals = String.concat "," (List.map hex_of_big [l.c10_l_min; l.c10_l_max; l.c10_l_epsilon; l.c10_l_round_error; l.c10_l_infinity;
             l.c10_l_quiet_NaN; l.c10_l_signaling_NaN; l.c10_l_denorm_min]) in
          let z = pad_hex n "0" in
          let mx = pad_hex n (hex_of_n (N.sub (N.pow (n_of_int 2) (c10_spec_width nn)) (n_of_int 1))) in
          flags ^ " " ^ ints ^ " " ^ vals,
          (* the spec: an unsigned exact bounded modulo integer type of radix 2 with w digits, no floating-point features *)
          "1011000001100 " ^ String.concat "," ["2"; string_of_int (16 * n); "0"; "0"; "0"; "0"; "1"; "1"] ^ " " ^ String.concat "," [z; mx; z; z; z; z; z; z]
      | "consts" ->
          let i x = string_of_int (int_of_n x) in
          String.concat " " [i c10_bits; string_of_int n; i c10_param_hexdigits; i c10_bitmask; i c10_compbitmask; i c10_overflowmask;
             i c10_param_uintmax_digits; i c10_param_double_digits; i c10_param_size_t_bits; i c10_param_touint_bits],
          String.concat " " ["16"; string_of_int ((k + 15) / 16); "4"; "65535"; "4294901760"; "1"; "64"; "53"; "64"; "32"]
      | "mixl" | "mixr" ->
          let big = big_of_hex t.(3) and u = n_of_hex t.(4) in
          let ut = c10_assign nn u in
          let fuel = nat_of_int (int_of_string t.(5)) in
          (match binop_of t.(2) with
           | Some o ->
             let (vx, vy) = if op = "mixl" then (c10_val big, c10_val ut) else (c10_val ut, c10_val big) in
             res_str (if op = "mixl" then c10_free_right n2 fuel o big u else c10_free_left n2 fuel o u big),
             (match c10_spec_binop nn o vx vy with Some v -> pad_hex n (hex_of_n v) | None -> "EXC MathError")
           | None -> "UNKNOWN-OP", "UNKNOWN-OP")
      | "mixsl" | "mixsr" ->
          (* signed built-in operand: k mixsl|mixsr <op> <big> <y decimal> <fuel> [type] *)
          let big = big_of_hex t.(3) and y = int_of_string t.(4) in
          let fuel = nat_of_int (int_of_string t.(5)) in
          (match binop_of t.(2) with
           | Some o ->
             res_str (if op = "mixsl" then c10_free_right_signed n2 fuel o big (z_of_int y) else c10_free_left_signed n2 fuel o (z_of_int y) big),
             (if y < 0 then "EXC Exception" else
                let vy = N.modulo (n_of_int y) (N.pow (n_of_int 2) (c10_spec_width nn)) in
                let (vx, vy) = if op = "mixsl" then (c10_val big, vy) else (vy, c10_val big) in
                (match c10_spec_binop nn o vx vy with Some v -> pad_hex n (hex_of_n v) | None -> "EXC MathError"))
           | None -> "UNKNOWN-OP", "UNKNOWN-OP")
      | "self" ->
          (* compound operator with both operands the same object: k self <op> <big> <fuel> *)
          let x = big_of_hex t.(3) in
          let fuel = nat_of_int (int_of_string t.(4)) in
          (match binop_of t.(2) with
           | Some o -> res_str (c10_apply n2 fuel o x x),
                       (match c10_spec_binop nn o (c10_val x) (c10_val x) with Some v -> pad_hex n (hex_of_n v) | None -> "EXC MathError")
           | None -> "UNKNOWN-OP", "UNKNOWN-OP")
      | "prog" ->
          (* object histories: k prog r0,r1,r2 tok,tok,...  (see c10_instr); fuel 70000 >= every quotient the generator admits *)
          let regs = List.map big_of_hex (String.split_on_char ',' t.(2)) in
          let prog = List.map instr_of (String.split_on_char ',' t.(3)) in
          let (rs, ev) = c10_run nn n2 (nat_of_int 70000) prog (regs, []) in
          let (vs, sev) = c10_spec_run nn prog (List.map c10_val regs, []) in
          String.concat "," (List.map hex_of_big rs) ^ " e=" ^ ev_str ev,
          String.concat "," (List.map (fun v -> pad_hex n (hex_of_n v)) vs) ^ " e=" ^ ev_str sev
      | "layout" -> string_of_int (2 * n) ^ " 1 1", string_of_int (2 * n) ^ " 1 1"
      | "hash" -> hex_of_n (c10_hash (a ())), "-"
      | "stream" ->
          (* os << std::hex << a << "|" << 255 << "|" << a : the first insertion leaves the stream in decimal *)
          let (o1, b1) = c10_stream_insert ([], C10_hex) (a ()) in
          let mid = (match b1 with C10_dec -> "|255|" | C10_hex -> "|ff|" | C10_oct -> "|377|") in
          let (o2, _) = c10_stream_insert ([], b1) (a ()) in
          string_of_chars o1 ^ mid ^ string_of_chars o2, pad_hex n (hex_of_n (va ())) ^ "|255|" ^ pad_hex n (hex_of_n (va ()))
      | "streamsb" ->
          (* showbase set on the stream: print's digits are unaffected (model of the code after fix C10-6), the flag is still set afterwards *)
          let (o1, _) = c10_stream_insert ([], C10_dec) (a ()) in
          string_of_chars o1 ^ "|255|0xff", pad_hex n (hex_of_n (va ())) ^ "|255|0xff"
      | "printst" | "streamst" ->
          (* k printst|streamst <big> <adj><base><sb><uc><sp><grp> <width> <fill hex>: print / operator<< on a stream in the given
             formatting state.  Fields: model (code after fix C10-7) | spec (from the VALUE) | model of the code as written *)
          let f = t.(3) in
          let bit i = f.[i] = '1' in
          let st = { c10_s_base = (match f.[1] with 'h' -> C10_hex | 'o' -> C10_oct | _ -> C10_dec); c10_s_showbase = bit 2; c10_s_uppercase = bit 3;
                     c10_s_showpos = bit 4;
                     c10_s_adjust = (match f.[0] with 'l' -> C10_adj_left | 'r' -> C10_adj_right | 'i' -> C10_adj_internal | _ -> C10_adj_other);
                     c10_s_fill = ascii_of_char (Char.chr (int_of_string ("0x" ^ t.(5)))); c10_s_width = n_of_int (int_of_string t.(4));
                     c10_s_group = n_of_int (Char.code f.[5] - 48); c10_s_sep = ascii_of_char ',' } in
          let show (o, s) =
            Printf.sprintf "[%s] w=%d fill=%02x adj=%s base=%s sb=%s uc=%s sp=%s" (string_of_chars o) (int_of_n s.c10_s_width)
              (Char.code (char_of_ascii s.c10_s_fill))
              (match s.c10_s_adjust with C10_adj_left -> "l" | C10_adj_right -> "r" | C10_adj_internal -> "i" | C10_adj_other -> String.make 1 f.[0])
              (match s.c10_s_base with C10_dec -> "d" | C10_hex -> "h" | C10_oct -> "o") (b01 s.c10_s_showbase) (b01 s.c10_s_uppercase) (b01 s.c10_s_showpos) in
          (* the spec, from the value: 4n hex digits (letters in the requested case) in a field of the pending width *)
          let body = pad_hex n (hex_of_n (va ())) in
          let body = if bit 3 then String.uppercase_ascii body else body in
          let w = int_of_string t.(4) in
          let padding = String.make (max 0 (w - String.length body)) (Char.chr (int_of_string ("0x" ^ t.(5)))) in
          let text = if f.[0] = 'l' then body ^ padding else padding ^ body in
          show (c10_print_ios st (a ())),
          Printf.sprintf "[%s] w=0 fill=%s adj=%c base=d sb=%c uc=%c sp=%c" text (String.lowercase_ascii t.(5)) f.[0] f.[2] f.[3] f.[4]
          ^ " | " ^ show (c10_print_ios_written st (a ()))
      | "touint" -> string_of_int (int_of_n (c10_touint (a ()))), string_of_int (int_of_n (N.modulo (va ()) (N.pow (n_of_int 2) (n_of_int 32))))
      | "todouble" ->
          let (m, e) = c10_todouble (a ()) in
          let (sm, se) = c10_spec_todouble (va ()) in
          let tr = c10_todouble_trace (a ()) in
          let last_ok = (match List.rev tr with [] -> m = N0 | x :: _ -> x = m) in
          canon_me (m, e) ^ (if (m, e) = (sm, se) && last_ok then "" else " MODEL-SPEC-MISMATCH"), "VAL " ^ hex_of_n (va ())
      | "print" -> String.concat "" (List.map (fun c -> String.make 1 (char_of_ascii c)) (c10_print (a ()))), pad_hex n (hex_of_n (va ()))
      | "max" -> hex_of_big (c10_max nn), pad_hex n (hex_of_n (N.sub (N.pow (n_of_int 2) (c10_spec_width nn)) (n_of_int 1)))
      | "min" -> hex_of_big (c10_min nn), pad_hex n "0"
      | "digits" -> string_of_int (int_of_n (c10_limit_digits nn)), string_of_int (16 * n)
      | "hasheq" -> b01 (c10_eq (a ()) (b ())), b01 (c10_spec_cmp CmpEq (va ()) (vb ()))
      | _ -> "UNKNOWN-OP", "UNKNOWN-OP" in
    print_string model; print_string " | "; print_endline spec
  done with End_of_file -> ())
