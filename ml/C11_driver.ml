(* C11 model driver: reads the case file, prints one line per case:
     <model (code after proposed fixes)> ## <spec oracle> ## <model of the code as snapshotted> ## <deep: private state of the model, or ->
   Case line: <container> <param> <op> <op> ...   (see checks/C11.py for the op grammar)
   Per step observations are joined by ';'.  UB = model hits a null/freed dereference, PRE = history violates a
   documented precondition (spec), FUEL = loop bound. *)
open C11_model

let rec nat_of_int i = if i <= 0 then O else S (nat_of_int (i - 1))
let rec int_of_nat = function O -> 0 | S n -> 1 + int_of_nat n
let ios = int_of_string
let b01 b = if b then "1" else "0"
let ints l = String.concat " " (List.map string_of_int l)
let split c s = String.split_on_char c s
let bits_of_string s = List.init (String.length s) (fun i -> s.[i] = '1')
let string_of_bits b = String.concat "" (List.map b01 b)

let show_res f = function C11_ok x -> f x | C11_ub -> "UB" | C11_fuel -> "FUEL"
let show_opt f = function Some x -> f x | None -> "PRE"
let join l = String.concat ";" l

(* ---------------- ArrayList *)
let al_op t = match split ':' t with
  | ["pb"; v] | ["pba"; _; v] -> AlPush (ios v) | ["er"; k] -> AlErase (nat_of_int (ios k)) | ["pg"] -> AlPurge | ["cl"] -> AlClear
  | ["seta"; i; _; v] -> AlSet (nat_of_int (ios i), ios v) | ["cpy"] | ["cpyd"] | ["cpya"] | [("asgo" | "asgm"); _; _; _] -> AlCopy
  | ["set"; i; v] -> AlSet (nat_of_int (ios i), ios v) | ["hold"; k] -> AlHold (nat_of_int (ios k))
  | _ -> failwith ("bad al op " ^ t)
let al_obs ((n, l), h) = Printf.sprintf "%d[%s]%s" (int_of_nat n) (ints l) (match h with Some v -> string_of_int v | None -> "-")
let al_deep (((st, sz), cap), nulls) =
  Printf.sprintf "%d,%d,%d,%s" (int_of_nat st) (int_of_nat sz) (int_of_nat cap) (String.concat "" (List.map b01 nulls))
(* Z of the extracted model -> int *)
let rec int_of_pos = function XH -> 1 | XO p -> 2 * int_of_pos p | XI p -> 2 * int_of_pos p + 1
let int_of_z = function Z0 -> 0 | Zpos p -> int_of_pos p | Zneg p -> - (int_of_pos p)
(* the secondary read paths of the model (begin()[i], mid[i-m], reverse walk, end()-begin(), begin()+size()==end()) must show the
   same list as the primary one; a difference is appended to the model stream as a flag (it then fails against the spec) *)
let al_ra_flags main ra =
  List.map2 (fun m r -> match m, r with
    | C11_ok ((n, l), _), C11_ok ((((a, b), c), dist), e) ->
      (if a <> l then "!model-begin[]" else "") ^ (if b <> l then "!model-mid[]" else "") ^ (if c <> l then "!model-reverse" else "")
      ^ (if int_of_z dist <> int_of_nat n then "!model-dist" else "") ^ (if not e then "!model-end" else "")
    | C11_ok _, _ -> "!model-ra-UB"
    | _, _ -> "") main ra
let run_al n ops =
  let ops = List.map al_op ops and nn = nat_of_int n in
  (let main = c11_al_run 0 nn true (c11_al_empty, None) ops in
   (* the secondary read paths are evaluated on the first 40 operations of a history (they cost O(size) big-integer operations per step) *)
   let rec take k = function [] -> [] | x :: r -> if k = 0 then [] else x :: take (k - 1) r in
   let ra = c11_al_run_ra 0 nn true (c11_al_empty, None) (take 40 ops) in
   let mainp = take 40 main in
   let flp = if List.length ra = List.length mainp then al_ra_flags mainp ra else List.map (fun _ -> "!model-ra-len") mainp in
   let fl = flp @ List.map (fun _ -> "") (List.filteri (fun i _ -> i >= List.length flp) main) in
   join (List.map2 (fun m f -> show_res al_obs m ^ f) main fl)),
  join (List.map (show_opt al_obs) (c11_als_run ([], None) ops)),
  join (List.map (show_res al_obs) (c11_alo_run 0 nn (c11_alo_empty, None) ops)),
  join (List.map (show_res al_deep) (c11_al_run_deep 0 nn true (c11_al_empty, None) ops))

(* ---------------- SLList *)
let bi s = (s = "1")
let sl_op t = match split ':' t with
  | ["pb"; i; v] | ["pbe"; i; _; v] -> SlPushBack (bi i, ios v) | ["pf"; i; v] | ["pfe"; i; _; v] -> SlPushFront (bi i, ios v) | ["pop"; i] -> SlPopFront (bi i)
  | ["minse"; i; k; _; v] -> SlMIns (bi i, nat_of_int (ios k), ios v)
  | ["cl"; i] -> SlClear (bi i) | ["mins"; i; k; v] -> SlMIns (bi i, nat_of_int (ios k), ios v)
  | ["mrem"; i; k] -> SlMRem (bi i, nat_of_int (ios k)) | ["mend"; i; v] -> SlMInsEnd (bi i, ios v)
  | ["iaft"; i; k; v] -> SlIAfter (bi i, nat_of_int (ios k), ios v) | ["idel"; i; k] -> SlIDel (bi i, nat_of_int (ios k))
  | ["asg"; i] -> SlAssign (bi i) | ["self"; i] -> SlAssignSelf (bi i) | ["cpy"; i] -> SlCopy (bi i)
  | _ -> failwith ("bad sl op " ^ t)
let sl_obs ((((((na, ea), la), ((nb, eb), lb)), e), ne)) =
  Printf.sprintf "%d,%s[%s] %d,%s[%s] %s%s" (int_of_nat na) (b01 ea) (ints la) (int_of_nat nb) (b01 eb) (ints lb) (b01 e) (b01 ne)
(* plus where the ModifyIterator stands after the op: _ = none used, - = endModify(), else the value *)
let sl_obs2 (o, p) = sl_obs o ^ " it=" ^ (match p with None -> "_" | Some None -> "-" | Some (Some v) -> string_of_int v)
let run_sl ops =
  let ops = List.map sl_op ops in
  let w0 = (c11_sl_empty 0, c11_sl_empty 0) in
  join (List.map (show_res sl_obs2) (c11_sl_run2 0 (=) true (w0, None) ops)),
  join (List.map (show_opt sl_obs2) (c11_sls_run2 (=) (([], []), None) ops)),
  join (List.map (show_res sl_obs2) (c11_sl_run2 0 (=) false (w0, None) ops)),
  join (List.map (show_res (fun ((a, b), (c, d)) -> b01 a ^ b01 b ^ " " ^ b01 c ^ b01 d)) (c11_sl_run_deep 0 true w0 ops))

(* ---------------- lru *)
let lru_op t = match split ':' t with
  | ["ins"; k; v] | ["insa"; k; _; v] -> LruInsert (nat_of_int (ios k), ios v) | ["touch"; k] | ["ins1"; k] | ["toucha"; k] -> LruTouch (nat_of_int (ios k))
  | ["cpy"] | ["cpyd"] | ["cpya"] -> LruCopy
  | ["asgo"; pre] -> LruAssignOnto (if pre = "" then [] else List.map (fun kv -> match split '=' kv with [k; v] -> (nat_of_int (ios k), ios v) | _ -> failwith "bad asgo") (split ',' pre))
  | ["popf"] -> LruPopFront | ["popb"] -> LruPopBack | ["rsz"; n] -> LruResize (nat_of_int (ios n)) | ["cl"] -> LruClear
  | _ -> failwith ("bad lru op " ^ t)
let lru_obs (((r, n), fb), fs) =
  Printf.sprintf "%s %d %s %s"
    (match r with LruVal v -> "v" ^ string_of_int v | LruRangeError -> "RE" | LruVoid -> "_")
    (int_of_nat n)
    (match fb with Some (f, b) -> Printf.sprintf "%d,%d" f b | None -> "-")
    (String.concat "|" (List.map (function Some (k, v) -> Printf.sprintf "%d=%d" (int_of_nat k) v | None -> "-") fs))
let run_lru nk ops =
  let ops = List.map lru_op ops and nk = nat_of_int nk in
  join (List.map (show_res lru_obs) (c11_lru_run true nk (c11_lru_empty, LruVoid) ops)),
  join (List.map (show_opt lru_obs) (c11_lrus_run nk ([], LruVoid) ops)),
  join (List.map (show_res lru_obs) (c11_lru_run false nk (c11_lru_empty, LruVoid) ops)),
  "-"

(* ---------------- ReservedVector *)
let rv_op cap t = match split ':' t with
  | ["atbig"; i; _] -> RvAt (bi i, nat_of_int (cap + 1))     (* 2^31 .. SIZE_MAX: any index >= size() (<= capacity), theorem C11_reserved_at_beyond *)
  | [("pb" | "pbm" | "eb"); i; v] | [("pbe" | "ebe"); i; _; v] -> RvPush (bi i, ios v)
  | ["fille"; i; _; v] -> RvFill (bi i, ios v) | ["swapr"; _] -> RvSwap
  | [("swaps" | "asgs" | "cpyc"); i; sz] -> RvResize (bi i, nat_of_int (ios sz))        (* identity: resize to the current size *) | ["pop"; i] -> RvPop (bi i) | ["rsz"; i; k] -> RvResize (bi i, nat_of_int (ios k))
  | ["mkd"; i; c] -> RvMake (bi i, nat_of_int (ios c), 0)
  | ["il"; i; k] -> RvFrom (bi i, List.init (ios k) (fun j -> j + 1))
  | ["cl"; i] -> RvClear (bi i) | ["set"; i; j; v] -> RvSet (bi i, nat_of_int (ios j), ios v) | ["fill"; i; v] -> RvFill (bi i, ios v)
  | ["mk"; i; c; v] -> RvMake (bi i, nat_of_int (ios c), ios v)
  | ["from"; i; l] -> RvFrom (bi i, if l = "" then [] else List.map ios (split ',' l))
  | ["swap"] -> RvSwap | ["asg"; i] -> RvAssign (bi i) | ["at"; i; j] -> RvAt (bi i, nat_of_int (ios j))
  | _ -> failwith ("bad rv op " ^ t)
let rv_obs ((((oa, ob), ((e, l1), l2)), r)) =
  let o1 ((n, l), fb) = Printf.sprintf "%d[%s]%s" (int_of_nat n) (ints l) (match fb with Some (f, b) -> Printf.sprintf "%d,%d" f b | None -> "-") in
  Printf.sprintf "%s %s %s%s%s %s" (o1 oa) (o1 ob) (b01 e) (b01 l1) (b01 l2)
    (match r with None -> "_" | Some None -> "OOR" | Some (Some v) -> string_of_int v)
let rvs_obs ((((oa, ob), ((e, l1), l2)), r)) =
  let sv = function Some v -> string_of_int v | None -> "*" in
  let sb = function Some b -> b01 b | None -> "*" in
  let o1 ((n, l), fb) = Printf.sprintf "%d[%s]%s" (int_of_nat n) (String.concat " " (List.map sv l))
      (match fb with Some (f, b) -> Printf.sprintf "%s,%s" (sv f) (sv b) | None -> "-") in
  Printf.sprintf "%s %s %s%s%s %s" (o1 oa) (o1 ob) (sb e) (sb l1) (sb l2)
    (match r with None -> "_" | Some None -> "OOR" | Some (Some v) -> sv v)
let run_rv n ops =
  let ops = List.map (rv_op n) ops and nn = nat_of_int n in
  let w0 = ((c11_rv_empty 0 nn, c11_rv_empty 0 nn), None) in
  let d4 f (((a, b), c), e) = " " ^ f a ^ f b ^ f c ^ f e in
  let sb = function Some b -> b01 b | None -> "*" in
  let m = join (List.map (show_res (fun (o, q) -> rv_obs o ^ d4 b01 q)) (c11_rv_run2 0 (=) (<) nn w0 ops)) in
  m, join (List.map (show_opt (fun (o, q) -> rvs_obs o ^ d4 sb q)) (c11_rvs_run2 (=) (<) nn (([], []), None) ops)), m, "-"

(* ---------------- BitSetVector *)
let bop = function "and" | "andb" -> BvAnd | "or" | "orb" -> BvOr | _ -> BvXor
let rec pos_of_int i = if i <= 1 then XH else if i land 1 = 0 then XO (pos_of_int (i lsr 1)) else XI (pos_of_int (i lsr 1))
let z_of_int i = if i = 0 then Z0 else if i > 0 then Zpos (pos_of_int i) else Zneg (pos_of_int (- i))
let bv_op bs t = let n s = nat_of_int (ios s) in match split ':' t with
  | ["setv"; i; j; v] -> BvSet (n i, n j, c11_bv_val_to_bool (z_of_int (ios v)))     (* int -> bool as in the model, theorem C11_bitset_set_val_nonzero *)
  | ["asgo"; _; _; cur] -> BvResize (n cur, false)                                  (* identity: resize to the current size *)
  | [("xblk" | "xblkc"); i; b; _; _] -> BvAssignBits (n i, bits_of_string b)
  | [("xand" | "xior" | "xxor") as o; i; b; _; _] -> BvOpBits ((match o with "xand" -> BvAnd | "xior" -> BvOr | _ -> BvXor), n i, bits_of_string b)
  | ["shlb"; i; _] -> BvShl (n i, nat_of_int bs) | ["shrb"; i; _] -> BvShr (n i, nat_of_int bs)   (* counts >= 2^31: theorem C11_bitset_shift_saturates *)
  | ["rsz"; k; v] -> BvResize (n k, bi v) | ["rszd"; k] -> BvResize (n k, false) | ["set1"; i; j] -> BvSet (n i, n j, true) | ["cl"] -> BvClear | ["sall"] -> BvSetAll | ["uall"] -> BvUnsetAll
  | [("set" | "sidx"); i; j; v] -> BvSet (n i, n j, bi v) | ["rbit"; i; j] -> BvSet (n i, n j, false) | ["flip"; i; j] -> BvFlipBit (n i, n j)
  | ["bset"; i] -> BvSetBlock (n i) | ["breset"; i] -> BvResetBlock (n i) | ["bflip"; i] -> BvFlipBlock (n i)
  | ["abool"; i; v] -> BvAssignBool (n i, bi v) | ["abits"; i; b] -> BvAssignBits (n i, bits_of_string b)
  | [("ablk" | "ablkc"); i; k] -> BvAssignBlock (n i, n k)
  | [("and" | "or" | "xor") as o; i; b] -> BvOpBits (bop o, n i, bits_of_string b)
  | [("andb" | "orb" | "xorb") as o; i; k] -> BvOpBlock (bop o, n i, n k)
  | ["shl"; i; k] -> BvShl (n i, n k) | ["shr"; i; k] -> BvShr (n i, n k)
  | _ -> failwith ("bad bv op " ^ t)
let bv_obs (((bl, c), cm), qs) =
  Printf.sprintf "%d[%s]c%d m%s q%s" (List.length bl) (String.concat "," (List.map string_of_bits bl)) (int_of_nat c)
    (String.concat "," (List.map (fun x -> string_of_int (int_of_nat x)) cm))
    (String.concat "," (List.map (fun (((((cn, a), n), l), e), nb) -> Printf.sprintf "%d%s%s%s%s~%s" (int_of_nat cn) (b01 a) (b01 n) (b01 l) (b01 e) (string_of_bits nb)) qs))
let run_bv bs ops =
  let ops = List.map (bv_op bs) ops and bs = nat_of_int bs in
  let m = join (List.map (show_res bv_obs) (c11_bv_run bs [] ops)) in
  m, join (List.map (show_opt bv_obs) (c11_bvs_run bs [] ops)), m, "-"

let () =
  let ic = open_in Sys.argv.(1) in
  (try while true do
    let line = String.trim (input_line ic) in
    let t = List.filter (fun s -> s <> "") (split ' ' line) in
    let (m, s, o, dp) = match t with
      | "al" :: n :: ops -> run_al (ios n mod 1000) ops
      | "sl" :: _ :: ops -> run_sl ops
      | "lru" :: nk :: ops -> run_lru (ios nk mod 1000) ops
      | "rv" :: n :: ops -> run_rv (ios n mod 1000) ops
      | "bv" :: bs :: ops -> run_bv (ios bs) ops
      | _ -> ("UNKNOWN", "UNKNOWN", "UNKNOWN", "-") in
    print_string m; print_string " ## "; print_string s; print_string " ## "; print_string o; print_string " ## "; print_endline dp
  done with End_of_file -> ())
