(* C12 model driver: reads the case file (argv[1]); prints ONE line per case:
     <model observation> | <spec / oracle value>
   Case formats (strings are "x"+hex, lists are comma separated, "-" is the empty list):
     ini <ow> <predoc> <doc> <queries> [<pre-assigns> <assigns>]   assigns: seg/seg/seg=value
     get <type> <value>
     opt <args>
     nopt <required> <allow_more> <ow> <keywords> <args> <predoc>
   The canonical forms are the same as in harness/C12/impl.cc. *)
open C12_model

let rec nat_of_int i = if i <= 0 then O else S (nat_of_int (i - 1))
let rec pos_of_int i = if i = 1 then XH else if i land 1 = 0 then XO (pos_of_int (i lsr 1)) else XI (pos_of_int (i lsr 1))
let z_of_int i = if i = 0 then Z0 else if i > 0 then Zpos (pos_of_int i) else Zneg (pos_of_int (- i))
let z_of_string (s : string) : z =
  let neg = String.length s > 0 && s.[0] = '-' in
  let r = ref Z0 in
  String.iteri (fun i c -> if not (i = 0 && neg) then
    r := Z.add (Z.mul !r (z_of_int 10)) (z_of_int (Char.code c - 48))) s;
  if neg then Z.opp !r else !r
(* decimal string of a positive: bits most significant first, decimal digit array doubled *)
let string_of_pos (p : positive) : string =
  let rec bits p acc = match p with XH -> 1 :: acc | XO q -> bits q (0 :: acc) | XI q -> bits q (1 :: acc) in
  let dec = ref [0] in (* little endian decimal digits *)
  List.iter (fun b ->
    let carry = ref b in
    dec := List.map (fun d -> let v = 2 * d + !carry in carry := v / 10; v mod 10) !dec;
    if !carry > 0 then dec := !dec @ [!carry]) (bits p []);
  String.concat "" (List.rev_map string_of_int !dec)
let string_of_z = function Z0 -> "0" | Zpos p -> string_of_pos p | Zneg p -> "-" ^ string_of_pos p

let explode (s : string) : char list = List.init (String.length s) (String.get s)
let implode (l : char list) : string = String.of_seq (List.to_seq l)
let unhex (s : string) : char list =            (* s without the leading x *)
  List.init (String.length s / 2) (fun i -> Char.chr (int_of_string ("0x" ^ String.sub s (2 * i) 2)))
let hex (l : char list) : string = String.concat "" (List.map (fun c -> Printf.sprintf "%02x" (Char.code c)) l)
let str_field (f : string) : char list = unhex (String.sub f 1 (String.length f - 1))
let list_field (f : string) : string list = if f = "-" then [] else String.split_on_char ',' f
let strs_field f = List.map str_field (list_field f)

let ob = function Some true -> "1" | Some false -> "0" | None -> "E"
let status_str = function
  | C12Ok -> "ok" | C12RangeError -> "RangeError" | C12ParserError -> "ParameterTreeParserError"
  | C12HelpRequest -> "HelpRequest" | C12OutOfFuel -> "OUTOFFUEL"

(* dump as the impl driver does it through the public interface: getValueKeys + operator[] const,
   getSubKeys + sub() const; "!" where that access throws RangeError (key is value and subtree) *)
let rec dump (t : c12_tree) : string =
  let b = Buffer.create 64 in
  Buffer.add_char b '{';
  List.iter (fun (k, _) ->
    Buffer.add_string b (hex k); Buffer.add_char b '=';
    (match c12_lookup t [k] with Some v -> Buffer.add_string b (hex v) | None -> Buffer.add_char b '!');
    Buffer.add_char b ';') (c12_vals t);
  Buffer.add_char b '|';
  List.iter (fun (k, _) ->
    Buffer.add_string b (hex k);
    (match c12_sub1 t k with Some s -> Buffer.add_string b (dump s) | None -> Buffer.add_char b '!')) (c12_subs t);
  Buffer.add_char b '}';
  Buffer.contents b

(* the dump the SPEC prescribes for a hierarchy given as a flat ordered assignment list *)
let rec spec_dump (d : c12_assign list) (pr : c12_str list) : string =
  let b = Buffer.create 64 in
  Buffer.add_char b '{';
  List.iter (fun k ->
    Buffer.add_string b (hex k); Buffer.add_char b '=';
    (match c12_spec_value d (pr @ [k]) with Some v -> Buffer.add_string b (hex v) | None -> Buffer.add_char b '?');
    Buffer.add_char b ';') (c12_spec_value_keys d pr);
  Buffer.add_char b '|';
  List.iter (fun k -> Buffer.add_string b (hex k); Buffer.add_string b (spec_dump d (pr @ [k]))) (c12_spec_sub_keys d pr);
  Buffer.add_char b '}';
  Buffer.contents b

let assigns_field (f : string) : c12_assign list =
  List.map (fun a ->
    match String.split_on_char '=' a with
    | [p; v] -> (List.map str_field (String.split_on_char '/' p), str_field v)
    | _ -> failwith "bad assignment") (list_field f)

let items_field (f : string) : c12_sline list =
  List.map (fun it ->
    let kind = it.[0] and fs = Array.of_list (List.map str_field (String.split_on_char '/' (String.sub it 2 (String.length it - 2)))) in
    let ch s = match s with [c] -> c | _ -> failwith "quote field" in
    match kind with
    | 'B' -> C12SBlank fs.(0)
    | 'C' -> C12SComment (fs.(0), fs.(1))
    | 'H' -> C12SHeader (fs.(0), fs.(1), fs.(2), fs.(3), fs.(4))
    | 'A' -> C12SAssign (fs.(0), fs.(1), fs.(2), fs.(3), fs.(4), fs.(5), fs.(6))
    | 'Q' -> C12SQuoted1 (fs.(0), fs.(1), fs.(2), fs.(3), ch fs.(4), fs.(5), fs.(6), fs.(7))
    | 'N' -> C12SQuotedN (fs.(0), fs.(1), fs.(2), fs.(3), ch fs.(4), fs.(5),
                          Array.to_list (Array.sub fs 8 (Array.length fs - 8)), fs.(6), fs.(7))
    | _ -> failwith "bad item") (list_field f)

let query (t : c12_tree) (k : c12_str) : string =
  let p = c12_path k in
  Printf.sprintf "h%ss%sg%s" (ob (c12_has_key t p)) (ob (c12_has_sub t p))
    (match c12_get_default t p (explode "DFLT") with Some v -> "x" ^ hex v | None -> "E")

let dotted (p : c12_str list) : c12_str = List.concat (List.mapi (fun i s -> if i = 0 then s else '.' :: s) p)
let report_text (t : c12_tree) (pfx : c12_str) : string =
  hex (List.concat_map (fun l -> l @ ['\n']) (c12_report_lines t pfx))
let counts (s : c12_tree) = Printf.sprintf "{%d,%d}" (List.length (c12_vals s)) (List.length (c12_subs s))
(* the remaining public members, as harness/C12/impl.cc fullApi *)
let full_api (qh : bool) (t : c12_tree) (qs : c12_str list) : string =
  let b = Buffer.create 256 in
  List.iteri (fun i k -> if i < 3 then begin
    let p = c12_path k in
    Buffer.add_string b " c";
    Buffer.add_string b (match c12_get_default t p (explode "DFLT") with Some v -> "x" ^ hex v | None -> "E");
    Buffer.add_string b "o"; Buffer.add_string b (match c12_lookup t p with Some v -> "x" ^ hex v | None -> "E");
    Buffer.add_string b "T"; Buffer.add_string b (match c12_sub_const t p true with Some s -> counts s | None -> "E");
    Buffer.add_string b "F"; Buffer.add_string b (match c12_sub_const t p false with Some s -> counts s | None -> "E");
    let (t', ok) = c12_sub_mut t p in
    Buffer.add_string b "M";
    Buffer.add_string b (if ok then string_of_int (List.length (c12_vals (c12_node t' p))) else "E");
    Buffer.add_string b (ob (c12_has_sub t' p)); Buffer.add_char b '#';
    Buffer.add_string b (string_of_int (List.length (c12_subs t'))) end) qs;
  Buffer.add_string b (" R=" ^ report_text t (explode "P:"));
  (match qs with
   | k :: _ -> Buffer.add_string b (" r=" ^ (match c12_sub_const t (c12_path k) false with
                                              | Some s -> report_text s (k @ ['.']) | None -> "E"))
   | [] -> ());
  (* aliasing assignments t = t.sub(q0), t.sub(q0) = t: trees are values, the source is read first *)
  (match qs with _ :: _ -> Buffer.add_string b " AL=ok" | [] -> ());
  (* a copy of the subtree sub(q0) (prefix: its dotted path, or "<unknown>" for the static empty tree), then
     sc["n.m"] = "1", then report() *)
  (match qs with
   | k :: _ ->
     let p = c12_path k in
     Buffer.add_string b " rc=";
     (match c12_sub_const t p false with
      | None -> Buffer.add_string b "E"
      | Some s ->
        let pfx = if c12_has_sub t p = Some true then k @ ['.'] else explode "<unknown>" in
        let (s1, ok) = c12_set s [explode "n"; explode "m"] (explode "1") in
        Buffer.add_string b (if ok then report_text s1 pfx else "E"))
   | [] -> ());
  (* report() read back by readINITree (overwrite allowed) into an empty tree; rt = the hypotheses of theorem
     C12_report_roundtrip_partial hold for this tree (printable fragment, hierarchy) *)
  let rl = c12_report_rlines t [] in
  let lines = c12_report_lines t [] in
  let rr = c12_parse_ini qh (List.concat_map (fun l -> l @ ['\n']) lines) c12_empty true in
  let hyp = List.for_all (fun l -> not (List.mem '\n' l)) lines && List.for_all c12_rline_ok rl &&
            c12_hierarchy (List.map (fun (k, _) -> c12_path k) (c12_rl_assigns rl [])) in
  Buffer.add_string b (Printf.sprintf " rr=%s:%s rt=%d" (status_str rr.c12_ir_status) (dump rr.c12_ir_tree) (if hyp then 1 else 0));
  (* assignment onto a tree that already holds other content (c12_tree_assign: copy and swap): the target afterwards is
     the source -- theorem C12_assign_onto_content, run here on the extracted code *)
  let old_content = fst (c12_set (fst (c12_set c12_empty [explode "junk"] (explode "1"))) [explode "old"; explode "deep"; explode "k"] (explode "2")) in
  let (t1, destroyed) = c12_tree_assign old_content t in
  Buffer.add_string b (if dump t1 = dump t && dump destroyed = dump old_content then " C=ok" else " C=THEOREM-INSTANCE-MISMATCH(C12_assign_onto_content)");
  Buffer.contents b

let tree_of_predoc_v (qh : bool) (f : string) : c12_tree = (c12_parse_ini qh (str_field f) c12_empty true).c12_ir_tree
(* for readNamedOptions the pre-filled tree is written without quotes: both variants agree *)
let tree_of_predoc (f : string) : c12_tree = tree_of_predoc_v false f

let zlist l = "[" ^ String.concat "," (List.map string_of_z l) ^ "]"
let exc = "EXC RangeError"
let okz = function Some v -> "OK " ^ string_of_z v | None -> exc
let okl = function Some l -> "OK " ^ zlist l | None -> exc
let bits l = String.concat "" (List.map (fun b -> if b then "1" else "0") l)

(* exact decimal of a modelled double: d:<sign>:<mantissa>:<exponent of 10> (rounded by the check) *)
let dec ((neg, m), e) = Printf.sprintf "d:%s:%s:%s" (if neg then "-" else "+") (string_of_z m) (string_of_z e)

let decf ((neg, m), e) = Printf.sprintf "f:%s:%s:%s" (if neg then "-" else "+") (string_of_z m) (string_of_z e)

let ity_bounds = function
  | C12Int -> (z_of_string "-2147483648", z_of_string "2147483647")
  | C12Long -> (z_of_string "-9223372036854775808", z_of_string "9223372036854775807")
  | C12UInt -> (Z0, z_of_string "4294967295")
  | C12ULong -> (Z0, z_of_string "18446744073709551615")
  | C12Short -> (z_of_string "-32768", z_of_string "32767")
  | C12UShort -> (Z0, z_of_string "65535")

let verdict_l = function C12Accept l -> "OK " ^ zlist l | C12Reject -> exc | C12Unspecified -> "?"

(* through a tree: pt["k"] = value; pt.get<T>("k") *)
let via_tree parse (v : c12_str) =
  let (t, _) = c12_set c12_empty [explode "k"] v in c12_get parse t [explode "k"]

let get_case (ty : string) (v : c12_str) : string * string =
  let scalar it =
    let (lo, hi) = ity_bounds it in
    let spec = match it with
      | C12Int | C12Long | C12Short -> okz (c12_spec_int lo hi v)
      | _ -> (* unsigned: a leading '-' wraps (modelled library behaviour, not claimed) *)
        if List.mem '-' v then "?" else okz (c12_spec_int lo hi v) in
    let m = okz (via_tree (c12_parse_scalar (c12_ity_extract it)) v) in
    (* instance of theorem C12_uint_exact on the extracted code (the oracle itself abstains on '-': library wrap-around) *)
    let m = match it with
      | C12UInt | C12ULong | C12UShort when okz (c12_spec_uint hi v) <> m -> "THEOREM-INSTANCE-MISMATCH(C12_uint_exact) " ^ m
      | _ -> m in
    m, spec in
  let range it n =
    let (lo, hi) = ity_bounds it in
    okl (via_tree (c12_parse_range true (c12_ity_extract it) (nat_of_int n)) v),
    verdict_l (c12_spec_range lo hi (nat_of_int n) v) in
  match ty with
  | "int" -> scalar C12Int | "long" -> scalar C12Long | "uint" -> scalar C12UInt | "ulong" -> scalar C12ULong
  | "bool" -> (match via_tree c12_parse_bool v with Some b -> "OK " ^ bits [b] | None -> exc),
              (match c12_spec_bool v with Some b -> "OK " ^ bits [b] | None -> exc)
  | "string" -> let r = via_tree (fun s -> Some (c12_parse_string s)) v in
                (match r with Some s -> "OK x" ^ hex s | None -> exc), "OK x" ^ hex (c12_spec_strip_ws v)
  | "arr3" -> range C12Int 3
  | "arr1" -> range C12Int 1
  | "arr2l" -> range C12Long 2
  | "arr2u" -> let (m, _) = range C12UInt 2 in m, "?"
  | "vec" -> let (lo, hi) = ity_bounds C12Int in
             okl (via_tree (c12_parse_vector (c12_ity_extract C12Int)) v),
             okl (c12_all_some (c12_spec_int lo hi) (c12_spec_tokens_ws v))
  | "vecs" -> (match via_tree (fun s -> Some (c12_parse_vector_string s)) v with
               | Some l -> "OK [" ^ String.concat "," (List.map (fun s -> "x" ^ hex s) l) ^ "]" | None -> exc),
              "OK [" ^ String.concat "," (List.map (fun s -> "x" ^ hex s) (c12_spec_tokens_ws v)) ^ "]"
  | "bits4" -> (match via_tree (c12_parse_bitset (nat_of_int 4)) v with Some l -> "OK " ^ bits l | None -> exc),
               (let toks = c12_spec_tokens_ws v in
                if List.length toks <> 4 then exc
                else match c12_all_some c12_spec_bool toks with Some l -> "OK " ^ bits l | None -> exc)
  | "short" -> scalar C12Short | "ushort" -> scalar C12UShort
  | "llong" -> scalar C12Long | "ullong" -> scalar C12ULong
  | "uchar" | "schar" -> (match via_tree (c12_parse_scalar c12_extract_char) v with Some c -> "OK x" ^ hex [c] | None -> exc), "?"
  | "flt" -> (match via_tree (c12_parse_scalar c12_extract_double) v with Some d -> "OK " ^ decf d | None -> exc), "?"
  | "vecf" -> (match via_tree (c12_parse_vector c12_extract_double) v with
               | Some l -> "OK [" ^ String.concat "," (List.map decf l) ^ "]" | None -> exc), "?"
  | "arr2d" -> (match via_tree (c12_parse_range true c12_extract_double (nat_of_int 2)) v with
               | Some l -> "OK [" ^ String.concat "," (List.map dec l) ^ "]" | None -> exc), "?"
  | "vecvec" ->
      let inner s = c12_parse_vector (c12_ity_extract C12Int) s in
      (match via_tree (fun s -> c12_all_some inner (c12_split s)) v with
       | Some l -> "OK [" ^ String.concat "," (List.map zlist l) ^ "]" | None -> exc), "?"
  | "bits1" | "bits8" | "bits0" ->
      let n = int_of_string (String.sub ty 4 1) in
      (match via_tree (c12_parse_bitset (nat_of_int n)) v with Some l -> "OK " ^ bits l | None -> exc),
      (let toks = c12_spec_tokens_ws v in
       if List.length toks <> n then exc
       else match c12_all_some c12_spec_bool toks with Some l -> "OK " ^ bits l | None -> exc)
  | "arr0" -> range C12Int 0 | "arr2" -> range C12Int 2 | "fv3" -> range C12Int 3 | "fv1l" -> range C12Long 1
  | "vecu" -> okl (via_tree (c12_parse_vector (c12_ity_extract C12UInt)) v), "?"
  | "vecl" -> let (lo, hi) = ity_bounds C12Long in
              okl (via_tree (c12_parse_vector (c12_ity_extract C12Long)) v),
              okl (c12_all_some (c12_spec_int lo hi) (c12_spec_tokens_ws v))
  | "vecb" -> (match via_tree (fun s -> c12_all_some c12_parse_bool (c12_split s)) v with
               | Some l -> "OK [" ^ String.concat "," (List.map (fun b -> if b then "1" else "0") l) ^ "]" | None -> exc),
              (match c12_all_some c12_spec_bool (c12_spec_tokens_ws v) with
               | Some l -> "OK [" ^ String.concat "," (List.map (fun b -> if b then "1" else "0") l) ^ "]" | None -> exc)
  | "char" -> (match via_tree (c12_parse_scalar c12_extract_char) v with Some c -> "OK x" ^ hex [c] | None -> exc), "?"
  | "arrs2" -> (match via_tree (c12_parse_range true c12_extract_word (nat_of_int 2)) v with
                | Some l -> "OK [" ^ String.concat "," (List.map (fun s -> "x" ^ hex s) l) ^ "]" | None -> exc),
               (let toks = c12_spec_tokens v in
                if List.length toks = 2 then "OK [" ^ String.concat "," (List.map (fun s -> "x" ^ hex s) toks) ^ "]" else exc)
  | "dbl" -> (match via_tree (c12_parse_scalar c12_extract_double) v with Some d -> "OK " ^ dec d | None -> exc), "?"
  | "fv2d" -> (match via_tree (c12_parse_range true c12_extract_double (nat_of_int 2)) v with
               | Some l -> "OK [" ^ String.concat "," (List.map dec l) ^ "]" | None -> exc), "?"
  | "vecd" -> (match via_tree (c12_parse_vector c12_extract_double) v with
               | Some l -> "OK [" ^ String.concat "," (List.map dec l) ^ "]" | None -> exc), "?"
  | "boolor0" | "boolor1" | "longor0" | "longor1" | "stror0" | "stror1" | "cstror0" | "cstror1" | "vecor0" | "vecor1" ->
      let present = ty.[String.length ty - 1] = '1' in
      let t0 = if present then fst (c12_set c12_empty [explode "k"] v) else c12_empty in
      let base = String.sub ty 0 (String.length ty - 3) in
      let p = [explode "k"] in
      let (lo, hi) = ity_bounds C12Long in
      (match base with
       | "bool" -> (match c12_get_or c12_parse_bool t0 p true with Some b -> "OK " ^ bits [b] | None -> exc),
                   (if present then (match c12_spec_bool v with Some b -> "OK " ^ bits [b] | None -> exc) else "OK 1")
       | "long" -> okz (c12_get_or (c12_parse_scalar (c12_ity_extract C12Long)) t0 p (z_of_int 77)),
                   (if present then okz (c12_spec_int lo hi v) else "OK 77")
       | "str" | "cstr" ->
           (* the non-template overloads return the stored string as it is (no trimming) *)
           (match c12_get_default t0 p (explode "DFLT") with Some s -> "OK x" ^ hex s | None -> exc),
           (if present then "OK x" ^ hex v else "OK x" ^ hex (explode "DFLT"))
       | _ -> let (li, hi2) = ity_bounds C12Int in
              okl (c12_get_or (c12_parse_vector (c12_ity_extract C12Int)) t0 p [z_of_int 7; z_of_int 8]),
              (if present then okl (c12_all_some (c12_spec_int li hi2) (c12_spec_tokens_ws v)) else "OK [7,8]"))
  | "intor0" -> (* get("k", 77) with k absent *)
      okz (c12_get_or (c12_parse_scalar (c12_ity_extract C12Int)) c12_empty [explode "k"] (z_of_int 77)), "OK 77"
  | "intor1" -> (* get("k", 77) with k present *)
      let (t, _) = c12_set c12_empty [explode "k"] v in
      let (lo, hi) = ity_bounds C12Int in
      okz (c12_get_or (c12_parse_scalar (c12_ity_extract C12Int)) t [explode "k"] (z_of_int 77)), okz (c12_spec_int lo hi v)
  | _ -> "UNKNOWN-TYPE", "UNKNOWN-TYPE"

let do_case (line : string) : string =
  let t = Array.of_list (String.split_on_char ' ' (String.trim line)) in
  match t.(0) with
  | "seq" ->
    (* object history: sources / command lines one after the other into one tree or into one of its subtrees *)
    let run qh =
      let root = ref c12_empty and sts = Buffer.create 32 in
      let i = ref 2 in
      while !i + 1 < Array.length t do
        let step = t.(!i) and arg = t.(!i + 1) in
        let f tr =
          if step.[0] = 'I' then
            let r = c12_parse_ini qh (str_field arg) tr (step.[1] = '1') in (r.c12_ir_tree, r.c12_ir_status)
          else c12_read_options (strs_field arg) tr in
        let (tr', st) = if t.(1) = "-" then f !root else c12_in_sub !root (c12_path (str_field t.(1))) f C12RangeError in
        root := tr'; Buffer.add_string sts (status_str st ^ ",");
        i := !i + 2
      done;
      Buffer.contents sts ^ " " ^ dump !root in
    let a = run false and b = run true in
    (if a = b then a else a ^ " ~ " ^ b) ^ " | ?"
  | "nofile" -> "IOError IOError {|} | IOError IOError {|}"
  | "ini" | "inif" ->
    let ow = t.(1) = "1" in
    let pre = tree_of_predoc_v true t.(2) in
    (* model observation for both variants of the comment search (as found / with fixes/C12-3.patch) *)
    let obs qh =
      let r = c12_parse_ini qh (str_field t.(3)) (tree_of_predoc_v qh t.(2)) ow in
      let qs = String.concat "," (List.map (query r.c12_ir_tree) (strs_field t.(4))) in
      Printf.sprintf "%s %s Q:%s%s" (status_str r.c12_ir_status) (dump r.c12_ir_tree) qs
        (if t.(0) = "inif" then full_api qh r.c12_ir_tree (strs_field t.(4)) ^ " ov=ok" else "") in
    let r = c12_parse_ini true (str_field t.(3)) pre ow in
    let m = let a = obs false and b = obs true in if a = b then a else a ^ " ~ " ^ b in
    let spec =
      if Array.length t >= 7 then begin
        let da = assigns_field t.(6) in
        let rec has_dup = function [] -> false | (p, _) :: r -> (c12_spec_value r p <> None) || has_dup r in
        if has_dup da then "ParameterTreeParserError" else
        let d = c12_spec_merge (assigns_field t.(5)) da ow in
        if c12_spec_wf d then "ok " ^ spec_dump d [] else "?"
      end else "?" in
    (* the document as items of the dialect of theorem C12_roundtrip: is the generated document inside the
       dialect (c12_sline_ok, and its bytes are the rendering of the items), and does the theorem's right-hand
       side (store the written assignment list) give the model's result *)
    let dialect =
      if Array.length t >= 8 then begin
        let ls = items_field t.(7) in
        let okd = List.for_all c12_sline_ok ls in
        let same = c12_eqs (c12_join_lines (List.concat_map c12_render_sline ls)) (str_field t.(3)) in
        let (t2, s2) = c12_store_all (c12_sdoc_assigns ls []) pre [] ow in
        let thm = (s2 = r.c12_ir_status) && (dump t2 = dump r.c12_ir_tree) in
        Printf.sprintf " dialect=%d%d%d" (if okd then 1 else 0) (if same then 1 else 0) (if thm then 1 else 0)
      end else "" in
    Printf.sprintf "%s | %s ub=%d%s" m spec (if r.c12_ir_ub then 1 else 0) dialect
  | "get" ->
    let (m, s) = get_case t.(1) (str_field t.(2)) in m ^ " | " ^ s
  | "opt" ->
    let args = strs_field t.(1) in
    let (tr, st) = c12_read_options args c12_empty in
    (* spec for every argument vector: theorem C12_options_all_argv *)
    let spec = let (t2, s2) = c12_spec_read_options args c12_empty in Printf.sprintf "%s %s" (status_str s2) (dump t2) in
    Printf.sprintf "%s %s | %s" (status_str st) (dump tr) spec
  | "optn" ->
    (* readOptions with argc - 1 = n counted arguments; the array holds all of the list (dimension audit 2) *)
    let all = strs_field t.(2) in
    let n = min (int_of_string t.(1)) (List.length all) in
    let counted = List.filteri (fun i _ -> i < n) all in
    let (tr, st) = c12_read_options_n (nat_of_int n) all c12_empty in
    (* spec: the counted arguments alone (theorem C12_options_argc_oversized); it does not speak when the last
       counted argument is an option without its value and the array goes on *)
    let dangling = snd (c12_options_scan counted) in
    let spec = if dangling && List.length all > n then "?"
               else let (t2, s2) = c12_spec_read_options counted c12_empty in Printf.sprintf "%s %s" (status_str s2) (dump t2) in
    Printf.sprintf "%s %s | %s" (status_str st) (dump tr) spec
  | "nopt" ->
    let kw = strs_field t.(4) in
    let req = min (int_of_string t.(1)) (List.length kw + 1) in
    let args = strs_field t.(5) and pre = tree_of_predoc t.(6) in
    let (tr, st) = c12_read_named_options args pre kw (nat_of_int req) (t.(2) = "1") (t.(3) = "1") in
    let spec =
      let (t2, s2) = c12_spec_read_named args pre kw (nat_of_int req) (t.(2) = "1") (t.(3) = "1") in
      Printf.sprintf "%s %s" (status_str s2) (dump t2) in
    Printf.sprintf "%s %s | %s" (status_str st) (dump tr) spec
  | _ -> "UNKNOWN-OP | ?"

let () =
  let ic = open_in Sys.argv.(1) in
  (try while true do
    let line = input_line ic in
    print_endline (try do_case line with e -> "MODEL-DRIVER-ERROR " ^ Printexc.to_string e ^ " | ?")
  done with End_of_file -> ())
