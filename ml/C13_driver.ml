(* C13 model driver.  One input line per case:
     num[,num..] exact ; ord_0 ; ord_1 ; ... # <B world> # <D world> # <S world of the impl, or ->
   world = rank dumps joined by " / ", rank dump = "I g.a.l.p ... R q:g.la.ra.k,... ... Y s [N ...]"
   ord_r = sources in the order rank r processes them ("-" = none), num = numberer (0 default, 1 old numbers, 2 1000+g).
   Output (one line):
     <S of the model as the tree is> ## <S of the repaired model> ## oi=<0|1> cnt=<0|1> ## sv=.. mono=.. compl=.. pre=.. restore=.. synced=..
   tree/tup/mod/seq: self-checks of further model functions on this case's data (model of the current source = repaired model;
   iterator-tuple insertion = list insertion and reproduces every new entry; modifier removal / repair reproduce the D world;
   sequence numbers in sync);  oi: repaired model gives the same result for the given order and for the fixed (ascending) order;
   cnt: calculateMessageSizes' publish count equals the number of packed publications for every (rank, neighbour);
   last group: the extracted spec (C13_Spec.v) applied to the IMPL's S world (na when absent). *)
open C13_model

let rec pos_of_int i = if i = 1 then XH else if i land 1 = 0 then XO (pos_of_int (i lsr 1)) else XI (pos_of_int (i lsr 1))
let n_of_int i = if i = 0 then N0 else Npos (pos_of_int i)
let rec int_of_pos = function XH -> 1 | XO p -> 2 * int_of_pos p | XI p -> 2 * int_of_pos p + 1
let int_of_n = function N0 -> 0 | Npos p -> int_of_pos p
let rec nat_of_int i = if i = 0 then O else S (nat_of_int (i - 1))
let rec int_of_nat = function O -> 0 | S n -> 1 + int_of_nat n
(* "max" = what IndicesSyncer::DefaultNumberer returns; the value comes from the extracted model (Params_gen) *)
let l_of_string s = if s = "max" then c13_param_default_local else n_of_int (int_of_string s)
let string_of_l l = if l = c13_param_default_local then "max" else string_of_int (int_of_n l)

let split_on s sep =   (* split on a multi-character separator *)
  let n = String.length sep and res = ref [] and start = ref 0 and i = ref 0 in
  while !i <= String.length s - n do
    if String.sub s !i n = sep then begin res := String.sub s !start (!i - !start) :: !res; i := !i + n; start := !i end
    else incr i
  done;
  List.rev (String.sub s !start (String.length s - !start) :: !res)
let words s = List.filter (fun x -> x <> "") (String.split_on_char ' ' s)

(* parse one rank dump into an observation *)
let parse_rank (s : string) : c13_obs =
  let ws = words s in
  let iset = ref [] and ri = ref [] and ptrs = ref [] and synced = ref false in
  let mode = ref ' ' in
  List.iter (fun w ->
    if w = "I" || w = "R" || w = "Y" || w = "N" then mode := w.[0]
    else match !mode with
    | 'I' -> (match String.split_on_char '.' w with
              | [g; a; l; p] -> iset := { c13_g = n_of_int (int_of_string g); c13_a = n_of_int (int_of_string a);
                                          c13_l = l_of_string l; c13_p = (p = "1") } :: !iset
              | _ -> failwith ("bad pair " ^ w))
    | 'R' -> let i = String.index w ':' in
             let q = n_of_int (int_of_string (String.sub w 0 i)) in
             let rest = String.sub w (i + 1) (String.length w - i - 1) in
             let es = if rest = "" then [] else String.split_on_char ',' rest in
             let ents = List.map (fun e -> match String.split_on_char '.' e with
                 | [g; la; ra; k] ->
                     let bad = (g = "!") in
                     (((if bad then n_of_int 999999 else n_of_int (int_of_string g)),
                       (if bad then n_of_int 999999 else n_of_int (int_of_string la))), n_of_int (int_of_string ra)),
                     (let k = int_of_string k in if k < 0 then None else Some (nat_of_int k))
                 | _ -> failwith ("bad entry " ^ e)) es in
             ri := (q, List.map fst ents) :: !ri; ptrs := (q, List.map snd ents) :: !ptrs
    | 'Y' -> synced := (w = "1")
    | _ -> ()) ws;
  { o_iset = List.rev !iset; o_ri = List.rev !ri; o_ptrs = List.rev !ptrs; o_synced = !synced }

let parse_world (s : string) : c13_obs list = List.map parse_rank (split_on s " / ")

let print_obs (o : c13_obs) : string =
  let b = Buffer.create 256 in
  Buffer.add_string b "I";
  List.iter (fun p -> Buffer.add_string b (Printf.sprintf " %d.%d.%s.%d" (int_of_n p.c13_g) (int_of_n p.c13_a) (string_of_l p.c13_l) (if p.c13_p then 1 else 0))) o.o_iset;
  Buffer.add_string b " R";
  List.iter2 (fun (q, l) (_, ks) ->
    Buffer.add_string b (Printf.sprintf " %d:" (int_of_n q));
    let ks = if List.length ks = List.length l then ks else List.map (fun _ -> None) l in
    Buffer.add_string b (String.concat "," (List.map2 (fun ((g, la), ra) k ->
      Printf.sprintf "%d.%d.%d.%d" (int_of_n g) (int_of_n la) (int_of_n ra) (match k with Some k -> int_of_nat k | None -> -1)) l ks))) o.o_ri o.o_ptrs;
  Buffer.add_string b (Printf.sprintf " Y %d" (if o.o_synced then 1 else 0));
  Buffer.contents b

let print_result (r : c13_result) : string =
  match r with
  | C13Deadlock -> "DEADLOCK"
  | C13Ok (_, _, ptrs) ->
      let err = List.fold_left (fun acc (_, p) -> match p with C13PastEnd -> "PASTEND" | C13OutOfFuel -> if acc = "" then "OUTOFFUEL" else acc | _ -> acc) "" ptrs in
      if err <> "" then err else (match c13_obs_of_result r with Some o -> print_obs o | None -> "DEADLOCK")

let b01 b = if b then "1" else "0"

let () =
  let ic = open_in Sys.argv.(1) in
  (try while true do
    let line = input_line ic in
    (try
      let parts = split_on line " # " in
      let hd, bs, ds, ss = match parts with [a; b; c; d] -> a, b, c, d | _ -> failwith "bad line" in
      let hp = List.map String.trim (String.split_on_char ';' hd) in
      (* num = one numberer mode for all ranks, or a comma separated list with one mode per rank (asymmetric configuration) *)
      let nums, exact = match words (List.hd hp) with
        | [a; b] -> Array.of_list (List.map int_of_string (String.split_on_char ',' a)), b = "1" | _ -> failwith "bad head" in
      let num_of ri = if Array.length nums = 1 then nums.(0) else if ri < Array.length nums then nums.(ri) else 2 in
      let orders = Array.of_list (List.map (fun s -> if s = "-" || s = "" then [] else
                      List.map (fun x -> n_of_int (int_of_string x)) (String.split_on_char ',' s)) (List.tl hp)) in
      let bw = parse_world bs and dw = parse_world ds in
      let barr = Array.of_list bw in
      let numb (r : n) (g : n) : n =
        match num_of (int_of_n r) with
        | 0 -> c13_default_numberer g
        | 1 -> (let ri = int_of_n r in
                let old = if ri < Array.length barr then List.filter (fun p -> p.c13_g = g) barr.(ri).o_iset else [] in
                match old with p :: _ -> p.c13_l | [] -> n_of_int (1000 + int_of_n g))
        | _ -> n_of_int (1000 + int_of_n g) in
      let w = List.map c13_proc_of_obs dw in
      let sigma (r : n) : n list = let i = int_of_n r in if i < Array.length orders then orders.(i) else [] in
      let run v sg = c13_sync v numb w sg in
      let show rs = String.concat " / " (List.map print_result rs) in
      let r_asis = run c13_asis sigma and r_fix = run c13_fixed sigma in
      let r_fix_fo = run c13_fixed (c13_fixed_order w) in
      let oi = (show r_fix = show r_fix_fo) in
      let cnt = List.for_all (fun x -> x) (List.concat (List.mapi (fun p pr ->
                  List.map (fun (q, _) -> int_of_nat (c13_calc_publish q pr.c13_iset pr.c13_ri)
                                           = List.length (c13_pack q pr.c13_iset pr.c13_ri)) pr.c13_ri) w)) in
      (* self-checks of the further model functions the theorems speak about, on this case's data *)
      let tree = (show (run c13_tree sigma) = show r_fix) in
      let darr = Array.of_list dw in
      let tup = List.for_all (fun x -> x) (List.mapi (fun p res -> match res with
          | C13Ok (_, ri, _) when p < Array.length darr ->
              List.for_all (fun (q, l) ->
                let l0 = (match List.assoc_opt q darr.(p).o_ri with Some x -> x | None -> []) in
                let news = List.filter (fun e -> not (List.mem e l0)) l in
                let t0 = ((List.map snd l0, List.map fst l0), List.map (fun _ -> true) l0) in
                let tf = List.fold_left (fun ((rl, gl), bl) (key, ra) -> c13_tuple_insert c13_fixed key ra rl gl bl) t0 (List.rev news) in
                let lf = List.fold_left (fun acc (key, ra) -> c13_list_insert c13_fixed key ra acc) l0 (List.rev news) in
                c13_tuple_view tf = lf && lf = l &&
                List.length (List.filter (fun b -> not b) (snd tf)) = List.length news) ri
          | _ -> true) r_fix) in
      let md = List.length bw = List.length dw && List.for_all2 (fun b d ->
          let gs o = List.map (fun ip -> ip.c13_g) o.o_iset in
          let dels = List.filter (fun g -> not (List.mem g (gs d))) (gs b) in
          List.for_all (fun (q, lb) -> match List.assoc_opt q d.o_ri with
              | None -> true
              | Some ld -> let keep = List.filter (fun e -> List.mem e lb) ld in c13_mod_remove_all dels lb = keep) b.o_ri
          && List.for_all2 (fun (_, ld) (_, ks) ->
               match c13_mod_repair d.o_iset (List.map (fun e -> fst (fst e)) ld) O with
               | Some ps -> List.map (fun k -> Some k) ps = ks
               | None -> false) d.o_ri d.o_ptrs) bw dw in
      let sq = c13_is_synced (c13_sync_seq { sq_set = n_of_int 3; sq_src = n_of_int 1; sq_dst = n_of_int 2 }) in
      let verdicts =
        if ss = "-" then "sv=na mono=na compl=na pre=na restore=na synced=na" else begin
          let sw = parse_world ss in
          let sv = List.for_all c13_sorted_valid_b sw in
          let mono = List.length sw = List.length dw && List.for_all2 c13_monotone_b dw sw in
          let compl = c13_completion_b dw sw in
          let pre = c13_restore_pre bw dw in
          let rest = c13_restore_b exact bw dw sw in
          let syn = List.for_all (fun o -> o.o_synced) sw in
          Printf.sprintf "sv=%s mono=%s compl=%s pre=%s restore=%s synced=%s" (b01 sv) (b01 mono) (b01 compl) (b01 pre) (b01 rest) (b01 syn)
        end in
      print_string (show r_asis ^ " ## " ^ show r_fix ^ " ## oi=" ^ b01 oi ^ " cnt=" ^ b01 cnt ^ " tree=" ^ b01 tree ^ " tup=" ^ b01 tup ^ " mod=" ^ b01 md ^ " seq=" ^ b01 sq ^ " ## " ^ verdicts ^ "\n")
    with Failure m -> print_string ("BADLINE " ^ m ^ "\n") | Not_found -> print_string "BADLINE notfound\n"
       | Invalid_argument m -> print_string ("BADLINE " ^ m ^ "\n"));
    flush stdout
  done with End_of_file -> ())
