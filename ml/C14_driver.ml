(* C14 model driver: reads the case file, prints one line per case:
     <model observation> ## <spec values for the oracle>
   The observation has exactly the canonical form printed by harness/C14 (key=value tokens). *)
open C14_model

let rec pos_of_int i = if i = 1 then XH else if i land 1 = 0 then XO (pos_of_int (i lsr 1)) else XI (pos_of_int (i lsr 1))
let z_of_int i = if i = 0 then Z0 else if i > 0 then Zpos (pos_of_int i) else Zneg (pos_of_int (- i))
let rec int_of_pos = function XH -> 1 | XO p -> 2 * int_of_pos p | XI p -> 2 * int_of_pos p + 1
let int_of_z = function Z0 -> 0 | Zpos p -> int_of_pos p | Zneg p -> - (int_of_pos p)
let rec nat_of_int i = if i = 0 then O else S (nat_of_int (i - 1))
let rec int_of_nat = function O -> 0 | S n -> 1 + int_of_nat n

let join_i (l : int list) = if l = [] then "-" else String.concat "," (List.map string_of_int l)
let join (l : z list) = join_i (List.map int_of_z l)
let b01 b = if b then "1" else "0"
let ints s = if s = "-" || s = "" then [] else List.map int_of_string (String.split_on_char ',' s)
let zs s = List.map z_of_int (ints s)

(* "i:2,d,3" -> pattern *)
let pattern_of inst =
  let p = match String.index_opt inst ':' with Some k -> String.sub inst (k + 1) (String.length inst - k - 1) | None -> inst in
  if p = "-" || p = "" then [] else
    List.map (fun t -> if t = "d" then None else Some (z_of_int (int_of_string t))) (String.split_on_char ',' p)
let dyn_of p e = List.concat (List.map2 (fun pe x -> match pe with None -> [x] | Some _ -> []) p e)
let all_dyn p = List.map (fun _ -> None) p

let mk lay e s = { c14_lay = lay; c14_ext = e; c14_str = (match lay with C14_Stride -> s | _ -> []) }
let offsets m = List.map (c14_map m) (c14_tuples m.c14_ext)
let describe m =
  Printf.sprintf "rss=%s exh=%s uni=%s st=%s o=%s" (string_of_int (int_of_z (c14_required_span_size m)))
    (b01 (c14_is_exhaustive m)) (b01 (c14_is_unique m.c14_lay)) (join (c14_strides_of m)) (join (offsets m))
(* the extents after constructing extents<I,p...> from the full list e *)
let ext_of p e = c14_extents_list p (c14_extents_ctor p e)
(* mapping with extents converted to all-dynamic extents of another index type, and back *)
let via_dext p m =
  let ad = all_dyn p in
  let dynp = c14_extents_ctor p m.c14_ext in
  let e1 = c14_extents_list ad (c14_extents_convert ad p dynp) in
  let m1 = { m with c14_ext = e1 } in
  let e2 = c14_extents_list p (c14_extents_convert p ad (c14_extents_ctor ad e1)) in
  let m2 = { m with c14_ext = e2 } in
  join (offsets m1) ^ " " ^ join (offsets m2)
let lay_of = function "L" -> C14_Left | "R" -> C14_Right | _ -> C14_Stride

let iota n f = List.init n f
let store_of n = iota n (fun k -> z_of_int (1000 + k))
let getv o = match o with Some v -> int_of_z v | None -> -1

let () =
  let ic = open_in Sys.argv.(1) in
  (try while true do
    let line = String.trim (input_line ic) in
    let toks = List.filter (fun s -> s <> "") (String.split_on_char ' ' line) in
    let op = List.nth toks 0 and inst = List.nth toks 1 in
    let kv = List.filter_map (fun t -> match String.index_opt t '=' with
      | Some k -> Some (String.sub t 0 k, String.sub t (k + 1) (String.length t - k - 1)) | None -> None) toks in
    let str k = try List.assoc k kv with Not_found -> "" in
    let num k = try int_of_string (List.assoc k kv) with Not_found -> 0 in
    let p = (try pattern_of inst with _ -> []) in
    let e = zs (str "E") and s = zs (str "S") in
    let base = num "base" in
    let out, spec = match op with
    | "ext" ->
        let d = dyn_of p e in
        let ad = all_dyn p in
        let all = ext_of p e and dyn = ext_of p d in
        let toD = c14_extents_list ad (c14_extents_convert ad p (c14_extents_ctor p e)) in
        let fromD = c14_extents_list p (c14_extents_convert p ad (c14_extents_ctor ad e)) in
        let se = if p = [] then "-" else String.concat "," (List.map (function None -> "d" | Some x -> string_of_int (int_of_z x)) p) in
        Printf.sprintf "rank=%d rd=%d se=%s all=%s dyn=%s arr=%s darr=%s sp=%s dsp=%s toD=%s fromD=%s eq=%s"
          (List.length p) (int_of_nat (c14_rank_dynamic p)) se (join all) (join dyn) (join all) (join dyn) (join all) (join dyn)
          (join toD) (join fromD) (b01 (c14_extents_eqb all toD && c14_extents_eqb toD fromD)),
        join (c14_spec_fill p d)
    | "map" ->
        let e = ext_of p e in
        let ml = mk C14_Left e s and mr = mk C14_Right e s and ms = mk C14_Stride e s in
        let d x = describe x in
        let lr, rl = if List.length e <= 1 then
            (match c14_relayout C14_Right ml, c14_relayout C14_Left mr with
             | Some a, Some b -> d a, d b | _ -> "ASSERT", "ASSERT") else "-", "-" in
        let r0 = (e = []) in
        Printf.sprintf "L %s | R %s | S %s | SS %s | Ld %s | Rd %s | LS %s | RS %s | Sd %s | LR %s | RL %s"
          (d ml) (d mr) (d ms) (d (c14_to_stride ms)) (via_dext p ml) (via_dext p mr)
          (if r0 then "-" else d (c14_to_stride ml)) (if r0 then "-" else d (c14_to_stride mr))
          (if r0 then "-" else via_dext p ms) lr rl,
        (let tu = c14_tuples e in
         let t = String.sub inst 0 1 in
         let bits, sg = (match t with "i" -> 32, true | "u" -> 32, false | "l" -> 64, true | "s" -> 16, true | "c" -> 8, true | _ -> 64, false) in
         let zbits = z_of_int bits in
         let rank = List.length e in
         let all f = List.for_all f tu in
         let rec last_of = function [] -> Z0 | [x] -> x | _ :: r -> last_of r in
         let inr lo hi x = int_of_z x >= lo && int_of_z x < hi in
         let pr = int_of_z (c14_product e) in
         (* the functions the theorems talk about, evaluated on every tuple of this case *)
         let ur = all (fun i -> c14_unrank_right e (c14_map_right e i) = i) and ul = all (fun i -> c14_unrank_left e (c14_map_left e i) = i) in
         let tr = all (fun i -> let trc = c14_map_right_trace e i in last_of trc = c14_map_right e i && List.for_all (inr 0 pr) trc
                                && List.for_all (fun x -> c14_fits zbits sg x) trc)
              && all (fun i -> let trc = c14_map_left_trace e i in last_of trc = c14_map_left e i && List.for_all (inr 0 pr) trc) in
         let vb = all (fun i -> c14_validb i e) in
         let bp = all (fun i -> List.for_all (fun r ->
                     let j = c14_bump i (nat_of_int r) in
                     (not (c14_validb j e)) ||
                     (List.for_all (fun m -> Z.sub (c14_map m j) (c14_map m i) = c14_stride m (nat_of_int r)) [ml; mr; ms])) (iota rank (fun r -> r))) in
         let wr = all (fun i -> List.for_all (fun m -> c14_wrap zbits sg (c14_map m i) = c14_map m i) [ml; mr; ms]
                                && c14_map_right_w zbits sg e i = c14_map_right e i && c14_map_left_w zbits sg e i = c14_map_left e i
                                && c14_map_stride_w zbits sg s i = c14_map_stride s i) in
         let ft = c14_fits zbits sg (c14_product e) && c14_fits zbits sg (c14_required_span_size ms) in
         let cx = c14_mapping_eqb_cross (c14_to_stride ml) ml && c14_mapping_eqb_cross (c14_to_stride mr) mr in
         Printf.sprintf "prod=%d L=%s R=%s S=%s UR=%s UL=%s TR=%s VB=%s BP=%s WR=%s FT=%s CX=%s" (int_of_z (c14_prod e)) (join (List.map (c14_spec_left e) tu))
           (join (List.map (c14_spec_right e) tu)) (join (List.map (fun i -> c14_dot i s) tu))
           (b01 ur) (b01 ul) (b01 tr) (b01 vb) (b01 bp) (b01 wr) (b01 ft) (b01 cx))
    | "mds" ->
        let e = ext_of p e in
        let m = mk (lay_of (str "lay")) e s in
        let rss = int_of_z (c14_required_span_size m) in
        let store = store_of (base + rss + 3) in
        let tu = c14_tuples e in
        let zb = z_of_int base in
        let pz = List.map (c14_mdspan_offset zb m) tu in
        let v = List.map (fun i -> getv (c14_mdspan_get store zb m i)) tu in
        let _, w = List.fold_left (fun (n, st) i ->
          (n + 1, match c14_mdspan_set st zb m i (z_of_int (5000 + n)) with Some st' -> st' | None -> st)) (0, store) tu in
        let size = int_of_z (c14_md_size m) in
        let same = (match m.c14_lay with
          | C14_Stride -> true
          | l -> let v1 = c14_mdspan_of_extents l p e zb and v2 = c14_mdspan_of_extents l p (dyn_of p e) zb in
                 (snd v1).c14_ext = e && (snd v2).c14_ext = e && fst v1 = zb && c14_mapping_eqb (snd v1) m && c14_mapping_eqb (snd v2) m) in
        Printf.sprintf "rank=%d size=%d empty=%s ext=%s st=%s exh=%s agree=1 p=%s v=%s same=%s w=%s"
          (List.length e) size (b01 (size = 0)) (join e) (join (c14_strides_of m)) (b01 (c14_is_exhaustive m))
          (join pz) (join_i v) (b01 same) (join w),
        ""
    | "mda" | "mdasa" ->
        let e = ext_of p e in
        let m = mk (lay_of (str "lay")) e [] in
        let k = if op = "mdasa" then "extv" else str "k" in
        let rss = int_of_z (c14_required_span_size m) in
        let arr0 =
          if List.mem k ["extv"; "mapv"; "extva"; "mapva"] then c14_mdarray_fill m (z_of_int 77)
          else if List.mem k ["extc"; "mapc"; "extcm"; "mapcm"; "extca"; "mapca"] then c14_mdarray_of_container m (store_of rss)
          else c14_mdarray_fill m Z0 in
        let cont0 = fst arr0 in
        let tu = c14_tuples e in
        let pz = List.map (c14_map m) tu in
        let v = List.map (fun i -> getv (c14_array_get arr0 i)) tu in
        let size = int_of_z (c14_md_size m) in
        let start = if op = "mdasa" then c14_mdarray_fill m Z0 else arr0 in
        (* writes go through the view returned by to_mdspan() *)
        let (st0, vw) = c14_to_mdspan start in
        let _, w = List.fold_left (fun (n, st) i ->
          (n + 1, match c14_mdspan_set st (fst vw) (snd vw) i (z_of_int (7000 + n)) with Some st' -> st' | None -> st)) (0, st0) tu in
        let head = Printf.sprintf "cs=%d size=%d empty=%s ext=%s agree=1 p=%s v=%s" (List.length cont0) size (b01 (size = 0)) (join e)
          (join pz) (join_i v) in
        if op = "mdasa" then head ^ " w=" ^ join w, "" else begin
          let vals = (match c14_mdarray_convert m.c14_lay (w, m) with
                      | Some x' -> List.map (fun i -> getv (c14_array_get x' i)) tu | None -> []) in
          let fs = match c14_mdarray_from_mdspan Z0 m.c14_lay w Z0 m with
            | Some (c, m') -> string_of_int (List.length c) ^ ";" ^ join_i (List.map (fun i -> getv (c14_mdarray_get c m' i)) tu)
            | None -> "UB" in
          head ^ Printf.sprintf " alias=1 w=%s copyeq=1 conv=%s;%d;%s fs=%s" (join w) (join e) (List.length w) (join_i vals) fs, ""
        end
    | "mdafs" | "p1fs" | "p3alloc" ->
        let e = ext_of p e in
        let l = str "lay" in
        let sl, dl = if op = "p1fs" then C14_Stride, lay_of l
          else if op = "p3alloc" then lay_of l, lay_of l
          else lay_of (String.sub l 0 1), lay_of (String.sub l 1 1) in
        let m = mk sl e s in
        let rss = int_of_z (c14_required_span_size m) in
        let store = store_of (base + rss + 3) in
        let tu = c14_tuples e in
        let zb = z_of_int base in
        let src = List.map (fun i -> getv (c14_mdspan_get store zb m i)) tu in
        (match c14_mdarray_from_mdspan Z0 dl store zb m with
         | Some (c, m') ->
             Printf.sprintf "cs=%d ext=%s p=%s v=%s src=%s" (List.length c) (join m'.c14_ext) (join (List.map (c14_map m') tu))
               (join_i (List.map (fun i -> getv (c14_mdarray_get c m' i)) tu)) (join_i src)
         | None -> "UB-OR-ASSERT"), ""
    | "acc" ->
        let e = ext_of p e in
        let lay = lay_of (str "lay") and a = str "a" in
        let s2 = zs (str "S2") and b2 = num "base2" and k1 = num "k1" and k2 = num "k2" in
        let m1 = mk lay e s and m2 = mk lay e s2 in
        let accf k : z -> z -> z = if a = "s2" then (fun h i -> Z.add h (Z.add (Z.mul (z_of_int 2) i) (z_of_int k)))
                                   else (fun h i -> Z.add h (Z.mul (z_of_int k) i)) in
        let a1 = accf k1 and a2 = accf k2 in
        let h1 = z_of_int base and h2 = z_of_int b2 in
        let tu = c14_tuples e in
        let pl = List.map (c14_view_cell a1 h1 m1) tu and ql = List.map (c14_view_cell a2 h2 m2) tu in
        let rss = max (int_of_z (c14_required_span_size m1)) (int_of_z (c14_required_span_size m2)) in
        let store = store_of (max base b2 + (if a = "s2" then 2 else max k1 k2) * rss + 4) in
        let v = List.map (fun i -> getv (c14_view_get store a1 h1 m1 i)) tu in
        let dl = (match lay with C14_Stride -> C14_Right | l -> l) in
        let arr ac h m = match c14_mdarray_from_mdspan_acc Z0 dl store ac h m with
          | Some (c, m') -> Printf.sprintf "ext=%s cs=%d v=%s" (join m'.c14_ext) (List.length c)
                              (join_i (List.map (fun i -> getv (c14_mdarray_get c m' i)) tu))
          | None -> "UB-OR-ASSERT" in
        Printf.sprintf "p=%s q=%s v=%s | ar %s | ara %s | sw %s ; %s | as %s ; %s | cv %s" (join pl) (join ql) (join_i v)
          (if num "arr" = 1 then arr a1 h1 m1 else "-") (if num "arr" = 1 then arr a2 h2 m2 else "-")
          (join ql) (join pl) (join pl) (join ql) (if a = "s2" then join pl else "-"), ""
    | "rol" ->
        let e = ext_of p e in
        let lay = lay_of (str "lay") in
        let m = mk lay e s in
        let zb = z_of_int base in
        let tu = c14_tuples e in
        let cells mm = join (List.map (c14_mdspan_offset zb mm) tu) in
        let pl = cells m in
        let avals mm f = Printf.sprintf "ext=%s cs=%d v=%s" (join mm.c14_ext) (int_of_z (c14_required_span_size mm)) (join_i (List.map f tu)) in
        (match lay with
         | C14_Stride ->
             Printf.sprintf "p=%s it=1 | st 1 %s | xo - | al - | tm -" pl (describe m)
         | _ ->
             let ms = c14_to_stride m in
             let back = (match c14_view_convert lay (zb, ms) with Some v -> cells (snd v) | None -> "ASSERT") in
             let other = (match lay with C14_Left -> C14_Right | _ -> C14_Left) in
             let xo = if List.length e <= 1 then
                 (match c14_view_convert other (zb, m) with
                  | Some v -> cells (snd v) ^ " ; " ^ avals (snd v) (fun i -> 1000 + int_of_z (c14_mdspan_offset zb m i))
                  | None -> "ASSERT") else "-" in
             let from_view = avals m (fun i -> 1000 + int_of_z (c14_mdspan_offset zb m i)) in
             Printf.sprintf "p=%s it=1 | xs %s ; %s ; %s | xo %s | al 1 %s ; %s ; %s ; %s | tm 1" pl (cells ms) back (describe ms) xo
               (avals m (fun _ -> 5)) from_view (avals m (fun i -> 1000 + int_of_z (c14_map m i))) (avals m (fun _ -> 6))), ""
    | "elt2" ->
        let e = ext_of p e in
        let m = mk (lay_of (str "lay")) e [] in
        let tu = c14_tuples e in
        let one tag = Printf.sprintf "%s cs=%d same=1 p=%s" tag (int_of_z (c14_required_span_size m)) (join (List.map (c14_mdspan_offset (z_of_int 1) m) tu)) in
        String.concat " | " [one "dbl"; one "wide"; one "chr"], ""
    | "elt" ->
        let e = ext_of p e in
        let m = mk (lay_of (str "lay")) e [] in
        let tu = c14_tuples e in
        let _, w = List.fold_left (fun (n, st) i ->
          (n + 1, match c14_mdarray_set st m i (z_of_int (7000 + n)) with Some st' -> st' | None -> st)) (0, c14_mdarray_new m (z_of_int 77)) tu in
        let sv = if tu = [] then "-" else String.concat "," (List.map (fun i -> "s" ^ string_of_int (1 + int_of_z (c14_map m i))) tu) in
        Printf.sprintf "dq cs=%d w=%s | str cs=%d same=1 v=%s" (List.length w) (join w) (List.length w) sv, ""
    | "swp" ->
        let f = str "f" in
        let e1 = ext_of p e and e2 = ext_of p (zs (str "E2")) in
        let s2 = zs (str "S2") and b2 = num "base2" in
        let vstate (v : z * c14_mapping) =
          let m = snd v in
          let tu = c14_tuples m.c14_ext in
          let size = int_of_z (c14_md_size m) in
          Printf.sprintf "ext=%s st=%s rss=%d exh=%s size=%d empty=%s acc=1 p=%s" (join m.c14_ext) (join (c14_strides_of m))
            (int_of_z (c14_required_span_size m)) (b01 (c14_is_exhaustive m)) size (b01 (size = 0))
            (join (List.map (c14_view_offset v) tu)) in
        let views tag lay =
          let m1 = mk lay e1 s and m2 = mk lay e2 s2 in
          let x = (z_of_int base, m1) and y = (z_of_int b2, m2) in
          let (x', y') = if f = "swap" then c14_view_swap x y else c14_view_assign x y in
          Printf.sprintf "%s a %s ; b %s ; q eq0=%s ne=1 asg=1 dz=1 uni=%s str=%s au=%s ae=%s as=%s rank=%d rd=%d sr=1 self=1" tag (vstate x') (vstate y')
            (b01 (c14_mapping_eqb m1 m2)) (b01 (c14_is_unique lay)) (b01 (c14_is_strided lay)) (b01 (c14_is_always_unique lay))
            (b01 (c14_is_always_exhaustive lay)) (b01 (c14_is_always_strided lay)) (List.length p) (int_of_nat (c14_rank_dynamic p)) in
        let astate (a : z list * c14_mapping) =
          let m = snd a in
          let tu = c14_tuples m.c14_ext in
          let size = int_of_z (c14_md_size m) in
          Printf.sprintf "ext=%s st=%s cs=%d size=%d empty=%s v=%s" (join m.c14_ext) (join (c14_strides_of m)) (List.length (fst a)) size
            (b01 (size = 0)) (join_i (List.map (fun i -> getv (c14_array_get a i)) tu)) in
        let filled m v0 =
          let _, w = List.fold_left (fun (n, st) i ->
            (n + 1, match c14_mdarray_set st m i (z_of_int (v0 + n)) with Some st' -> st' | None -> st)) (0, c14_mdarray_new m Z0) (c14_tuples m.c14_ext) in w in
        let arrays tag lay =
          let m1 = mk lay e1 [] and m2 = mk lay e2 [] in
          let x = (filled m1 7000, m1) and y = (filled m2 8000, m2) in
          let (x', y') = if f = "swap" then c14_array_swap x y else c14_array_assign x y in
          Printf.sprintf "%s a %s ; b %s ; q self=1 eq0=%s eqc=1 ex=1 ptr=1 uni=%s exh=%s str=%s au=%s ae=%s as=%s rank=%d rd=%d" tag (astate x')
            (if f = "move" then "-" else astate y') (b01 (c14_array_eqb (fun u w -> u = w) x y))
            (b01 (c14_is_unique lay)) (b01 (c14_is_exhaustive m1)) (b01 (c14_is_strided lay)) (b01 (c14_is_always_unique lay))
            (b01 (c14_is_always_exhaustive lay)) (b01 (c14_is_always_strided lay)) (List.length p) (int_of_nat (c14_rank_dynamic p)) in
        String.concat " | " [views "L" C14_Left; views "R" C14_Right; views "S" C14_Stride; arrays "AL" C14_Left; arrays "AR" C14_Right], ""
    | "xcv" ->
        (* inst = "t:p>t':p'" : source pattern p, target pattern p' *)
        let k = String.index inst '>' in
        let ps = pattern_of (String.sub inst 0 k) and pd = pattern_of (String.sub inst (k + 1) (String.length inst - k - 1)) in
        let dyn_s = c14_extents_ctor ps e in
        let dyn_d = c14_extents_convert pd ps dyn_s in
        let ed = c14_extents_list pd dyn_d in
        let back = c14_extents_list ps (c14_extents_convert ps pd dyn_d) in
        let es = c14_extents_list ps dyn_s in
        let tu = c14_tuples ed in
        let one tag lay =
          let m = mk lay ed s in
          let rss = int_of_z (c14_required_span_size (mk lay es s)) in
          ignore rss;
          let pz = join (List.map (c14_mdspan_offset (z_of_int base) m) tu) in
          Printf.sprintf " | %s ext=%s %s | sp%s ext=%s size=%d p=%s" tag (join ed) (describe m) tag (join ed) (int_of_z (c14_md_size m)) pz
          ^ (match lay with
             | C14_Stride -> ""
             | _ -> Printf.sprintf " | ar%s ext=%s cs=%d v=%s" tag (join ed) (int_of_z (c14_required_span_size m))
                      (join_i (List.mapi (fun n _ -> 7000 + n) tu))) in
        Printf.sprintf "ext=%s back=%s eq=%s" (join ed) (join back) (b01 (c14_extents_eqb ed es && c14_extents_eqb back es))
        ^ one "L" C14_Left ^ one "R" C14_Right ^ one "S" C14_Stride,
        join e
    | "p1cvt" ->
        let e = ext_of p e in
        (match c14_relayout (lay_of (str "lay")) (mk C14_Stride e s) with Some m -> describe m | None -> "ASSERT"), ""
    | "p2conv" ->
        let e = ext_of p e in
        let m = mk (lay_of (str "lay")) e s in
        let tu = c14_tuples e in
        let pz = join (List.map (c14_mdspan_offset (z_of_int base) m) tu) in
        Printf.sprintf "ext=%s dext=%s pb=%s pd=%s" (join e) (join e) pz pz, ""
    | "p5r0" ->
        let m = mk (lay_of (str "lay")) [] [] in
        let st = c14_to_stride m in
        Printf.sprintf "D %s | C %s | O %s" (describe (mk C14_Stride [] [])) (describe st) (describe st), ""
    | "p7tm" ->
        let e = ext_of p e in
        let m = mk (lay_of (str "lay")) e [] in
        let tu = c14_tuples e in
        let (st0, vw) = c14_to_mdspan (c14_mdarray_fill m (z_of_int 5)) in
        let _, w = List.fold_left (fun (n, st) i ->
          (n + 1, match c14_mdspan_set st (fst vw) (snd vw) i (z_of_int (7000 + n)) with Some st' -> st' | None -> st)) (0, st0) tu in
        Printf.sprintf "p=%s w=%s" (join (List.map (c14_view_offset vw) tu)) (join w), ""
    | "mdasb" ->
        let e = ext_of p e in
        let m = mk (lay_of (str "lay")) e [] in
        let tu = c14_tuples e in
        let n = int_of_z (c14_required_span_size m) in
        let _, w = List.fold_left (fun (k, st) i ->
          (k + 1, match c14_mdarray_set st m i (z_of_int (7000 + k)) with Some st' -> st' | None -> st)) (0, c14_mdarray_new m Z0) tu in
        Printf.sprintf "cs=%d size=%d p=%s v=%s w=%s" (n + 2) (int_of_z (c14_md_size m)) (join (List.map (c14_map m) tu))
          (join_i (List.map (fun _ -> 77) tu)) (join w), ""
    | "p6crit" ->
        let o = num "o" and len = num "len" in
        let l = iota len (fun k -> 1000 + o + k) and l3 = iota 3 (fun k -> 1000 + o + k) in
        Printf.sprintf "rv=%s rv3=%s n=%d" (join_i (List.rev l)) (join_i (List.rev l3)) len, ""
    | "seq" | "p8meq" ->
        (* operator== with the two sides of different extents / index types: exact comparison (Z) *)
        let ea = ext_of p e and eb = zs (str "E2") and s2 = zs (str "S2") in
        if op = "p8meq" then begin
          let l = lay_of (str "lay") in
          let ab = c14_mapping_eqb (mk l ea []) (mk l eb []) and ba = c14_mapping_eqb (mk l eb []) (mk l ea []) in
          Printf.sprintf "ea=%s eb=%s ab=%s ba=%s ne=%s" (join ea) (join eb) (b01 ab) (b01 ba) (b01 (not ab)), ""
        end else begin
          let a = mk C14_Stride ea s and b = mk C14_Stride eb s2 in
          let bl = mk C14_Left eb [] and br = mk C14_Right eb [] in
          let st m = if m.c14_ext = [] then "-" else join (c14_strides_of m) in
          let t = String.sub inst 0 1 in
          let bits, sg = (match t with "i" -> 32, true | "u" -> 32, false | "l" -> 64, true | "s" -> 16, true | "c" -> 8, true | _ -> 64, false) in
          Printf.sprintf "ea=%s sa=%s eb=%s sb=%s sl=%s sr=%s xab=%s xba=%s sab=%s sba=%s sal=%s sar=%s"
            (join ea) (st a) (join eb) (st b) (st bl) (st br) (b01 (c14_extents_eqb ea eb)) (b01 (c14_extents_eqb eb ea))
            (b01 (c14_mapping_eqb_cross a b)) (b01 (c14_mapping_eqb_cross b a)) (b01 (c14_mapping_eqb_cross a bl)) (b01 (c14_mapping_eqb_cross a br)),
          (* the comparison as the header writes it (right-hand strides narrowed to a's index_type) *)
          Printf.sprintf "W=%s Wl=%s Wr=%s" (b01 (c14_mapping_eqb_cross_w (z_of_int bits) sg a b))
            (b01 (c14_mapping_eqb_cross_w (z_of_int bits) sg a bl)) (b01 (c14_mapping_eqb_cross_w (z_of_int bits) sg a br))
        end
    | "p4eq" ->
        let e = ext_of p e in
        let m = mk (lay_of (str "lay")) e [] in
        let ms = mk C14_Stride e s in
        let conv = c14_to_stride m in
        Printf.sprintf "eqconv=%s eq=%s ss=%s" (b01 (c14_mapping_eqb_cross conv m)) (b01 (c14_mapping_eqb_cross ms m)) (b01 (c14_mapping_eqb_cross ms conv)), ""
    | "span" ->
        let o = z_of_int (num "o") and len = z_of_int (num "len") in
        let sp = { c14_sp_off = o; c14_sp_len = len } in
        let x = str "x" and f = str "f" and a = z_of_int (num "a") and c = num "c" in
        let ext_tag ex = match ex with None -> "d" | Some n -> string_of_int n in
        let static_of x = if x = "a5" then Some 5 else if x = "c4" then Some 4 else
            if String.length x > 0 && x.[0] = 'd' then None else Some (int_of_string x) in
        let desc ex = function
          | None -> "ASSERT"
          | Some s -> let l = int_of_z s.c14_sp_len in
              Printf.sprintf "off=%d len=%d bytes=%d empty=%s it=%d ext=%s" (int_of_z s.c14_sp_off) l (int_of_z (c14_span_size_bytes s (z_of_int 8))) (b01 (l = 0)) (List.length (c14_span_elems s)) (ext_tag ex) in
        let pos = function None -> "EXC out_of_range" | Some q -> Printf.sprintf "pos=%d v=%d" (int_of_z q) (1000 + int_of_z q) in
        let ex = static_of x in
        (match f with
         | "desc" -> desc ex (Some sp)
         | "first" -> desc None (c14_span_first sp a)
         | "last" -> desc None (c14_span_last sp a)
         | "sub" -> desc None (c14_span_subspan sp a (if c < 0 then None else Some (z_of_int c)))
         | "subd" -> desc None (c14_span_subspan sp a None)
         | "sfirst" -> desc (Some (int_of_z a)) (c14_span_first sp a)
         | "slast" -> desc (Some (int_of_z a)) (c14_span_last sp a)
         | "ssub" ->
             let rex = (match c14_subspan_extent (match ex with Some n -> Some (z_of_int n) | None -> None) a
                                (if c < 0 then None else Some (z_of_int c)) with Some n -> Some (int_of_z n) | None -> None) in
             desc rex (c14_span_subspan sp a (if c < 0 then None else Some (z_of_int c)))
         | "at" -> pos (c14_span_at sp a)
         | "idx" -> pos (Some (c14_span_index sp a))
         | "front" -> (match c14_span_front sp with None -> "ASSERT" | q -> pos q)
         | "back" -> (match c14_span_back sp with None -> "ASSERT" | q -> pos q)
         | "iter" ->
             let l = List.map (fun q -> 1000 + int_of_z q) (c14_span_elems sp) in
             "fw=" ^ join_i l ^ " rv=" ^ join_i (List.rev l)
         | "conv" -> desc None (Some sp)
         | "asg" -> desc ex (Some sp) ^ " ok=1"
         | "tost" -> let l = Some (int_of_z len) in desc l (Some sp) ^ " | " ^ desc l (Some sp)
         | _ -> "UNKNOWN-SPAN-OP"), ""
    | _ -> "UNKNOWN-OP", "" in
    print_string out; print_string " ## "; print_endline spec
  done with End_of_file -> ())
