(* C15 model driver.
     model cases.txt            -> one line per case:  <model observation> | <oracle verdict on the model's own line>
     model cases.txt impl.out   -> one line per case:  oracle verdict (extracted spec) on the IMPLEMENTATION's line
   Case lines:   pool sT aT S ops.. | pa sT aT s ops.. | malloc sT aT ops.. | aligned sT aT Al ops.. |
                 debug page sT aT ops.. | isaligned p align | alignedbase align off       (ops: a<n> allocate(n), f<i> free i-th live block)
   Observation tokens: pool/pa: G<u>,<size>,<al>,<as>,<cs>,<el>  then per op  c<k>+<off> | bad_alloc | F , then D<bytes>:<c>.<c>..
                 malloc/aligned: ok | bad_alloc | F        debug: ok:o<ptr mod page> | bad_alloc | F | ABORT(..)
   The implementation appends !flag to a token for address-level failures it sees itself (misaligned, overlap, ...). *)
open C15_model

let rec pos_of_int i = if i = 1 then XH else if i land 1 = 0 then XO (pos_of_int (i lsr 1)) else XI (pos_of_int (i lsr 1))
let n_of_int i = if i = 0 then N0 else Npos (pos_of_int i)
let rec int_of_pos = function XH -> 1 | XO p -> 2 * int_of_pos p | XI p -> 2 * int_of_pos p + 1
let int_of_n = function N0 -> 0 | Npos p -> int_of_pos p
let rec nat_of_int i = if i <= 0 then O else S (nat_of_int (i - 1))
let rec int_of_nat = function O -> 0 | S n -> 1 + int_of_nat n
let ten = n_of_int 10
let n_of_dec (s : string) : n =
  let r = ref N0 in
  String.iter (fun c -> if c >= '0' && c <= '9' then r := N.add (N.mul !r ten) (n_of_int (Char.code c - 48)) else failwith "dec") s; !r
let dec_of_n (x : n) : string =
  let rec go x acc = if x = N0 then acc else go (N.div x ten) (string_of_int (int_of_n (N.modulo x ten)) ^ acc) in
  let s = go x "" in if s = "" then "0" else s

let parse_op (t : string) : c15_op =
  let rest = String.sub t 1 (String.length t - 1) in
  let two () = match String.split_on_char '.' rest with [a; b] -> (a, b) | [a] -> (a, "0") | _ -> failwith "op" in
  match t.[0] with
  | 'a' -> OpAlloc (n_of_dec rest)
  | 'f' -> OpFree (nat_of_int (int_of_string rest))
  | 'z' -> let a, b = two () in OpFreeN (nat_of_int (int_of_string a), n_of_dec b)
  | 'x' -> OpFreeInvalid true
  | 'y' -> OpFreeInvalid false
  | 'k' -> OpCopy (n_of_dec rest)
  | 'b' -> let a, b = two () in OpFreeBad (nat_of_int (int_of_string a), n_of_dec b)
  | _ -> failwith "op"

let obs_str = function
  | ObsBlock (c, off) -> Printf.sprintf "c%d+%s" (int_of_nat c) (dec_of_n off)
  | ObsBadAlloc -> "bad_alloc" | ObsFreed -> "F" | ObsPrecond -> "PRECOND" | ObsOutOfFuel -> "OUTOFFUEL" | ObsAbort -> "ABORT"
  | ObsNoop -> "Z" | ObsCopyOk -> "K"
let parse_obs (t : string) : c15_obs =
  if t = "bad_alloc" then ObsBadAlloc else if t = "F" then ObsFreed else if t = "Z" then ObsNoop else if t = "K" then ObsCopyOk
  else if String.length t > 1 && t.[0] = 'c' then
    (match String.index_opt t '+' with
     | Some i -> (try ObsBlock (nat_of_int (int_of_string (String.sub t 1 (i - 1))), n_of_dec (String.sub t (i + 1) (String.length t - i - 1)))
                  with _ -> ObsAbort)
     | None -> ObsAbort)
  else ObsAbort

let rec take k l = if k = 0 then [] else match l with [] -> [] | h :: t -> h :: take (k - 1) t
let has_bang s = String.contains s '!'
let starts p s = String.length s >= String.length p && String.sub s 0 (String.length p) = p
let is_crash s = starts "CRASH" s || starts "ABORT" s || starts "EXC" s || starts "HANG" s || starts "NOT-RUN" s
let split s = List.filter (fun x -> x <> "") (String.split_on_char ' ' (String.trim s))

(* first prefix length at which `ok k` fails *)
let first_bad n ok = let rec go k = if k > n then n else if ok k then go (k + 1) else k in go 1

let geom_tok g = Printf.sprintf "G%s,%s,%s,%s,%s,%s" (dec_of_n g.g_unionSize) (dec_of_n g.g_size) (dec_of_n g.g_alignment)
    (dec_of_n g.g_alignedSize) (dec_of_n g.g_chunkSize) (dec_of_n g.g_elements)

(* ---- pool ---- *)
let pool_oracle ?(pr=false) sT aT ops (toks0 : string list) : string =
  (* Pool::print: one token per chunk plus the terminating null *)
  let nops0 = List.length ops in
  let ptok, toks =
    if pr && List.length toks0 = nops0 + 3 then Some (List.nth toks0 (nops0 + 1)), (take (nops0 + 1) toks0 @ [List.nth toks0 (nops0 + 2)])
    else None, toks0 in
  if pr && ptok = None && not (List.exists has_bang toks0) && not (List.exists is_crash toks0) then "REJECT trace incomplete (no print token)" else
  match List.find_opt has_bang toks, List.find_opt is_crash toks with
  | Some t, _ -> "REJECT harness flag " ^ t
  | None, Some t -> "REJECT trace incomplete: " ^ t
  | None, None ->
    let nops = List.length ops in
    if List.length toks <> nops + 2 then
      "REJECT trace incomplete: " ^ (match List.rev toks with t :: _ -> t | [] -> "(empty)")
    else begin
      let obs = List.map parse_obs (take nops (List.tl toks)) in
      let d = List.nth toks (nops + 1) in
      let bytes, rel =
        try
          let i = String.index d ':' in
          let b = n_of_dec (String.sub d 1 (i - 1)) in
          let r = String.sub d (i + 1) (String.length d - i - 1) in
          b, List.map (fun x -> nat_of_int (int_of_string x)) (List.filter (fun x -> x <> "") (String.split_on_char '.' r))
        with _ -> N0, [O; O; O; O; O; O; O; O; O; O; O; O; O; O; O; O; O] in
      if not (c15_spec_trace sT aT bytes O [] ops obs) then begin
        let k = first_bad nops (fun k -> c15_spec_trace sT aT bytes O [] (take k ops) (take k obs)) in
        (match List.nth ops (k - 1) with
         | OpAlloc n when n <> n_of_int 1 -> Printf.sprintf "REJECT allocate(n) with n <> 1 not refused at op %d: %s" (k - 1) (List.nth toks k)
         | _ -> Printf.sprintf "REJECT block predicate fails at op %d: %s" (k - 1) (List.nth toks k))
      end else if not (c15_spec_destroy (c15_spec_nchunks obs) rel) then "REJECT destroy does not release every chunk once: " ^ d
      else "ok"
    end

let do_pool pa sT aT s opsl =
  let ops = List.map parse_op opsl in
  if not (c15_ops_ok O ops) then "BADCASE", "BADCASE" else
  match (if pa then c15_pa_geometry sT aT s else c15_geometry sT aT s) with
  | None -> "NOGEOM", "ok"
  | Some g ->
    let obs, st = c15_run g c15_client_empty ops in
    let rel = c15_pool_destroy st.cl_pool in
    let nb = if rel = [] then N0 else c15_chunk_bytes g in
    let toks = [geom_tok g] @ List.map obs_str obs @
               (if pa then [] else [Printf.sprintf "P%d" (List.length rel + 1)]) @
               [Printf.sprintf "D%s:%s" (dec_of_n nb) (String.concat "." (List.map (fun c -> string_of_int (int_of_nat c)) rel))] in
    (* the literal intrusive free list (arbitrary initial memory, the client scribbles over its blocks) must agree: C15_pool_refines *)
    let junk (b : c15_slot) = Some (S (S (S (fst b))), N.add (snd b) (n_of_int 8)) in
    let hobs, _ = c15_hrun g junk (c15_hclient_empty (fun _ -> Some (S O, n_of_int 24))) ops in
    let verdict = pool_oracle ~pr:(not pa) sT aT ops toks in
    String.concat " " toks, (if hobs = obs then verdict else "REJECT literal free-list model (c15_hrun) differs from the list model")

(* ---- the allocators inside std::list / std::vector ---- *)
let stl_sizes (ops : (char * int * int) list) : int list =
  let rec go sz = function
    | [] -> []
    | (k, a, _) :: r ->
      let sz' = (match k with 'p' -> sz + 1 | 'q' -> if sz > 0 then sz - 1 else 0 | 'e' -> if a < sz then sz - 1 else sz
                            | 'i' -> if a <= sz then sz + 1 else sz | 'c' -> 0 | _ -> sz) in
      sz' :: go sz' r in
  go 0 ops
let parse_stl_op (t : string) : char * int * int =
  let rest = String.sub t 1 (String.length t - 1) in
  match String.split_on_char '.' rest with
  | [""] -> (t.[0], 0, 0) | [a] -> (t.[0], int_of_string a, 0) | [a; b] -> (t.[0], int_of_string a, int_of_string b) | _ -> failwith "stlop"
(* node allocations of the list as a pool history: every insertion allocates one node, every removal releases one *)
let stl_pool_chunks g (ops : (char * int * int) list) : int =
  let chunks_of_hist h = let _, st = c15_run g c15_client_empty h in List.length (c15_pool_destroy st.cl_pool) in
  let rec mk n = if n <= 0 then [] else OpAlloc (n_of_int 1) :: mk (n - 1) in
  let rec fr n = if n <= 0 then [] else OpFree O :: fr (n - 1) in
  let rec go sz hist extra = function
    | [] -> chunks_of_hist (List.rev hist) + extra
    | (k, a, _) :: r ->
      (match k with
       | 'p' -> go (sz + 1) (OpAlloc (n_of_int 1) :: hist) extra r
       | 'i' -> if a <= sz then go (sz + 1) (OpAlloc (n_of_int 1) :: hist) extra r else go sz hist extra r
       | 'q' -> if sz > 0 then go (sz - 1) (OpFree O :: hist) extra r else go sz hist extra r
       | 'e' -> if a < sz then go (sz - 1) (OpFree O :: hist) extra r else go sz hist extra r
       | 'c' -> go 0 (List.rev_append (fr sz) hist) extra r
       | 'y' -> go sz hist (extra + chunks_of_hist (mk sz)) r
       | 'g' -> go sz hist (extra + chunks_of_hist (mk (max 1 sz))) r
       | _ -> go sz hist extra r) in
  go 0 [] 0 ops
let stl_model what nodeS nodeA par opsl =
  let ops = List.map parse_stl_op opsl in
  let sizes = List.map (fun k -> "s" ^ string_of_int k) (stl_sizes ops) in
  if what = "pa" then
    (match c15_pa_geometry nodeS nodeA par with
     | None -> ["NOGEOM"]
     | Some g -> let k = stl_pool_chunks g ops in [geom_tok g] @ sizes @ [Printf.sprintf "D%d/%d" k k])
  else sizes @ ["D0/0"]
let stl_oracle what opsl (toks : string list) : string =
  match List.find_opt has_bang toks, List.find_opt is_crash toks with
  | Some t, _ -> "REJECT harness flag " ^ t
  | None, Some t -> "REJECT trace incomplete: " ^ t
  | None, None ->
    let ops = List.map parse_stl_op opsl in
    let body = if what = "pa" then (match toks with _ :: r -> r | [] -> []) else toks in
    let exp = List.map (fun k -> "s" ^ string_of_int k) (stl_sizes ops) in
    if List.length body <> List.length exp + 1 then "REJECT trace incomplete" else
    if take (List.length exp) body <> exp then "REJECT container contents/sizes differ from the sequence semantics" else
    let d = List.nth body (List.length exp) in
    (match String.split_on_char '/' (String.sub d 1 (String.length d - 1)) with
     | [a; b] when a = b -> "ok"
     | _ -> "REJECT destroying the container does not return every chunk: " ^ d)

(* ---- several allocator objects ---- *)
let parse_mop (t : string) : c15_mop =
  let rest = String.sub t 1 (String.length t - 1) in
  let parts = String.split_on_char '.' rest in
  let i k = nat_of_int (int_of_string (List.nth parts k)) in
  match t.[0] with
  | 'A' -> MAlloc (i 0, n_of_dec (List.nth parts 1))
  | 'F' -> MFree (i 0, i 1)
  | 'C' -> MCopy (i 0)
  | 'V' -> MFreeVia (i 0, i 1, i 2)
  | 'E' -> MEqual (i 0, i 1)
  | _ -> failwith "mop"
let mobs_str = function MObs o -> obs_str o | MObsEq b -> if b then "E1" else "E0"

(* oracle: equality answers are object identity; release through another object is refused; the projection of the trace onto each
   allocator object satisfies the single-allocator block predicate (c15_spec_trace) *)
let multi_oracle sT aT (ops : c15_mop list) (toks : string list) : string =
  match List.find_opt has_bang toks, List.find_opt is_crash toks with
  | Some t, _ -> "REJECT harness flag " ^ t
  | None, Some t -> "REJECT trace incomplete: " ^ t
  | None, None ->
    let nops = List.length ops in
    if List.length toks <> nops + 2 then "REJECT trace incomplete" else begin
      let body = take nops (List.tl toks) in
      let nall = List.fold_left (fun a o -> match o with MCopy _ -> a + 1 | _ -> a) 1 ops in
      let proj = Array.make nall ([], []) in
      let add j op tok = let (a, b) = proj.(j) in proj.(j) <- (op :: a, parse_obs tok :: b) in
      let bad = ref "" in
      List.iter2 (fun op tok ->
          match op with
          | MAlloc (j, n) -> add (int_of_nat j) (OpAlloc n) tok
          | MFree (j, i) -> add (int_of_nat j) (OpFree i) tok
          | MCopy _ -> if tok <> "K" && !bad = "" then bad := "copy: " ^ tok
          | MFreeVia (k, j, i) -> if k = j then add (int_of_nat j) (OpFree i) tok
                                  else if tok <> "bad_alloc" && !bad = "" then bad := "release through another allocator object not refused: " ^ tok
          | MEqual (j, k) -> if tok <> (if j = k then "E1" else "E0") && !bad = "" then bad := "operator== is not object identity: " ^ tok) ops body;
      if !bad <> "" then "REJECT " ^ !bad else begin
        let storage = (try let d = List.nth toks (nops + 1) in let i = String.index d ':' in n_of_dec (String.sub d 1 (i - 1)) with _ -> N0) in
        let okall = ref true in
        Array.iter (fun (a, b) -> if not (c15_spec_trace sT aT storage O [] (List.rev a) (List.rev b)) then okall := false) proj;
        if not !okall then "REJECT block predicate fails for one of the allocator objects"
        else begin
          let nchunks = Array.fold_left (fun acc (_, b) -> acc + int_of_nat (c15_spec_nchunks (List.rev b))) 0 proj in
          let d = List.nth toks (nops + 1) in
          if d = Printf.sprintf "D%s:%d/%d" (dec_of_n storage) nchunks nchunks then "ok" else "REJECT destroying the allocators does not return every chunk: " ^ d
        end
      end
    end

let do_multi sT aT s opsl =
  let ops = List.map parse_mop opsl in
  match c15_pa_geometry sT aT s with
  | None -> "NOGEOM", "ok"
  | Some g ->
    if not (c15_mops_ok g [c15_client_empty] ops) then "BADCASE", "BADCASE" else
    let obs, ms = c15_mrun g [c15_client_empty] ops in
    let nch = List.fold_left (fun a st -> a + List.length (c15_pool_destroy st.cl_pool)) 0 ms in
    let nb = if nch = 0 then N0 else c15_chunk_bytes g in
    let toks = [geom_tok g] @ List.map mobs_str obs @ [Printf.sprintf "D%s:%d/%d" (dec_of_n nb) nch nch] in
    String.concat " " toks, multi_oracle sT aT ops toks

(* ---- malloc / aligned ---- *)
let sys_oracle sT ops (toks : string list) : string =
  match List.find_opt has_bang toks, List.find_opt is_crash toks with
  | Some t, _ -> "REJECT harness flag " ^ t
  | None, Some t -> "REJECT trace incomplete: " ^ t
  | None, None ->
    if List.length toks <> List.length ops then "REJECT trace incomplete: " ^ (match List.rev toks with t :: _ -> t | [] -> "(empty)")
    else
      let rec go ops toks nlive = match ops, toks with
        | [], [] -> "ok"
        | OpAlloc n :: r, "ok" :: tr ->
          if c15_spec_unservable sT n then "REJECT returned a block for an unservable request (n*sizeof T >= 2^47 bytes): a" ^ dec_of_n n
          else if c15_spec_malloc_must_refuse sT n then "REJECT request beyond max_size served: a" ^ dec_of_n n else go r tr (nlive + 1)
        | OpAlloc _ :: r, "bad_alloc" :: tr -> go r tr nlive
        | OpFree i :: r, "F" :: tr -> if int_of_nat i < nlive then go r tr (nlive - 1) else "REJECT free of a dead block"
        | _, t :: _ -> "REJECT unexpected " ^ t
        | _, [] -> "REJECT short" in
      go ops toks 0

let do_sys aligned sT aT al opsl =
  let ops = List.map parse_op opsl in
  let rec go ops nlive = match ops with
    | [] -> []
    | OpAlloc n :: r ->
      let res = if aligned then c15_aligned_allocate sT aT al n c15_sys_aligned else c15_malloc_allocate sT aT n c15_sys_malloc c15_sys_aligned in
      (match res with C15Ok _ -> "ok" :: go r (nlive + 1) | C15BadAlloc -> "bad_alloc" :: go r nlive | _ -> "PRECOND" :: go r nlive)
    | OpFree i :: r -> if int_of_nat i < nlive then "F" :: go r (nlive - 1) else "PRECOND" :: go r nlive in
  let toks = go ops 0 in
  String.concat " " toks, sys_oracle sT ops toks

(* ---- debug ---- *)
let err_of_tok (t : string) : c15_dbg_obs =
  let has sub = let n = String.length sub and m = String.length t in
    let rec go i = i + n <= m && (String.sub t i n = sub || go (i + 1)) in go 0 in
  if not (starts "ABORT(" t) then DObsPrecond
  else if has "memory_block_not_found" then DObsAbort DbgNotFound
  else if has "n_==_it->size" then DObsAbort DbgSize
  else if has "ptr_==_it->ptr" then DObsAbort DbgPtr
  else if has "typeid" then DObsAbort DbgType
  else if has "not_free" then DObsAbort DbgNotFree
  else if has "lost_allocations" then DObsAbort DbgLost
  else DObsPrecond

let dbg_parse_obs sT (op : c15_op) (t : string) : c15_dbg_obs =
  if t = "bad_alloc" then DObsBadAlloc else if t = "F" then DObsFreed
  else if String.length t > 4 && String.sub t 0 4 = "ok:o" then
    (match op with OpAlloc n -> (try DObsOk (n_of_dec (String.sub t 4 (String.length t - 4)), N.mul n sT, true) with _ -> DObsPrecond)
                 | _ -> DObsPrecond)
  else err_of_tok t

(* dman: the last token is the outcome of the manager's destructor *)
let dbg_oracle ?(man=false) page sT aT ops (toks0 : string list) : string =
  match List.find_opt has_bang toks0 with
  | Some t -> "REJECT harness flag " ^ t
  | None ->
    let nops = List.length ops in
    let toks, dtor = if man && List.length toks0 = nops + 1 then take nops toks0, Some (List.nth toks0 nops) else toks0, None in
    let nt = List.length toks in
    let opsk = take nt ops in
    let obs = List.map2 (dbg_parse_obs sT) opsk (take (List.length opsk) toks) in
    let ended_by_abort = (match List.rev obs with DObsAbort _ :: _ -> true | _ -> false) in
    if (nt = nops || ended_by_abort) && c15_spec_dbg_trace page sT aT O (take nt ops) obs
       && (nt = nops || (match List.nth ops (nt - 1) with OpAlloc _ | OpFree _ -> false | _ -> true)) then begin
      if man && not ended_by_abort then begin
        let nlive = List.fold_left (fun a o -> match o with DObsOk _ -> a + 1 | DObsFreed -> a - 1 | _ -> a) 0 obs in
        match dtor with
        | Some d ->
          let aborted = (err_of_tok d = DObsAbort DbgLost) in
          if (d = "D0" || aborted) && c15_spec_dbg_destroy (nat_of_int nlive) (nat_of_int nlive) aborted then "ok"
          else "REJECT manager destructor with " ^ string_of_int nlive ^ " blocks in use: " ^ d
        | None -> "REJECT trace incomplete (no destructor token)"
      end else "ok"
    end else begin
      let k = first_bad nt (fun k -> c15_spec_dbg_trace page sT aT O (take k ops) (take k obs)
                                     || (k = nt && ended_by_abort && c15_spec_dbg_trace page sT aT O (take nt ops) obs)) in
      Printf.sprintf "REJECT debug allocator trace fails at op %d: %s" (k - 1) (if k >= 1 && k <= nt then List.nth toks (k - 1) else "(missing)")
    end

let dbg_obs_str sT op = function
  | DObsOk (off, cap, g) ->
    let n = (match op with OpAlloc n -> n | _ -> N0) in
    "ok:o" ^ dec_of_n off ^ (if cap = N.mul n sT then "" else "!short") ^ (if g then "" else "!noguard")
  | DObsBadAlloc -> "bad_alloc" | DObsFreed -> "F" | DObsPrecond -> "PRECOND"
  | DObsAbort DbgNotFound -> "ABORT(memory_block_not_found)"
  | DObsAbort DbgSize -> "ABORT(Assertion_n_==_it->size_failed)"
  | DObsAbort DbgPtr -> "ABORT(Assertion_ptr_==_it->ptr_failed)"
  | DObsAbort DbgType -> "ABORT(Assertion_typeid(T)_==_*(it->type)_failed)"
  | DObsAbort DbgNotFree -> "ABORT(Assertion_true_==_it->not_free_failed)"
  | DObsAbort DbgLost -> "ABORT(lost_allocations)"

(* mode: 0 DebugAllocator, 1 AllocationManager used directly (free = deallocate<T>(p) with the default count 0), 2 DEBUG_ALLOCATOR_KEEP *)
let do_debug mode page sT aT opsl =
  let ops0 = List.map parse_op opsl in
  let ops = if mode = 1 then List.map (function OpFree i -> OpFreeN (i, N0) | o -> o) ops0 else ops0 in
  let obs = if mode = 2 then c15_dbgk_run page sT (c15_dbgk_state0 page) ops else c15_dbg_run true true page sT (c15_dbg_state0 page) ops in
  let toks = List.map2 (dbg_obs_str sT) (take (List.length obs) ops) obs in
  let toks = if mode = 1 then
      (match c15_dbg_final true true page sT (c15_dbg_state0 page) ops with
       | Some st -> let _, aborted = c15_dbg_destroy st.ds_list in toks @ [if aborted then "ABORT(lost_allocations)" else "D0"]
       | None -> toks)
    else toks in
  String.concat " " toks, dbg_oracle ~man:(mode = 1) page sT aT ops toks
let dbg_ops mode opsl = let ops0 = List.map parse_op opsl in
  if mode = 1 then List.map (function OpFree i -> OpFreeN (i, N0) | o -> o) ops0 else ops0

(* ---- plain API ---- *)
let b01 x = if x then "1" else "0"
let api_line what sT =
  if what = "pa" then
    let e st so = b01 (c15_pa_equal st so) ^ b01 (not (c15_pa_equal st so)) in
    (* same object, two objects, copy, other value type, void/void same object, void/void distinct, void/T, T/void *)
    Printf.sprintf "max=%s eq=%s rebind=1" (dec_of_n c15_pa_max_size)
      (e true true ^ e true false ^ e true false ^ e false false ^ e true true ^ e true false ^ e false false ^ e false false)
  else
    Printf.sprintf "max=%s eq=%s rebind=1 sm=%s" (dec_of_n (c15_max_size sT))
      (b01 c15_stateless_equal ^ b01 (not c15_stateless_equal) ^ b01 c15_stateless_equal ^ b01 (not c15_stateless_equal)) (b01 c15_stateless_equal)

let () =
  let ic = open_in Sys.argv.(1) in
  let impl = if Array.length Sys.argv > 2 then Some (open_in Sys.argv.(2)) else None in
  (try while true do
    let line = input_line ic in
    let t = split line in
    let il = (match impl with Some c -> (try Some (input_line c) with End_of_file -> Some "") | None -> None) in
    let nn k = n_of_dec (List.nth t k) in
    let rec drop k l = if k = 0 then l else drop (k - 1) (List.tl l) in
    let out =
      try
        (match List.hd t, il with
         | ("pool" | "pa"), None -> let m, o = do_pool (List.hd t = "pa") (nn 1) (nn 2) (nn 3) (drop 4 t) in m ^ " | " ^ o
         | ("pool" | "pa"), Some l ->
           if l = "NOGEOM" then "ok" else pool_oracle ~pr:(List.hd t = "pool") (nn 1) (nn 2) (List.map parse_op (drop 4 t)) (split l)
         | "malloc", None -> let m, o = do_sys false (nn 1) (nn 2) None (drop 3 t) in m ^ " | " ^ o
         | "malloc", Some l -> sys_oracle (nn 1) (List.map parse_op (drop 3 t)) (split l)
         | "aligned", None ->
           let al = if List.nth t 3 = "-1" then None else Some (nn 3) in
           let m, o = do_sys true (nn 1) (nn 2) al (drop 4 t) in m ^ " | " ^ o
         | "aligned", Some l -> sys_oracle (nn 1) (List.map parse_op (drop 4 t)) (split l)
         | ("debug" | "dman" | "debugkeep"), None ->
           let mode = (match List.hd t with "dman" -> 1 | "debugkeep" -> 2 | _ -> 0) in
           let m, o = do_debug mode (nn 1) (nn 2) (nn 3) (drop 4 t) in m ^ " | " ^ o
         | ("debug" | "dman" | "debugkeep"), Some l ->
           let mode = (match List.hd t with "dman" -> 1 | "debugkeep" -> 2 | _ -> 0) in
           dbg_oracle ~man:(mode = 1) (nn 1) (nn 2) (nn 3) (dbg_ops mode (drop 4 t)) (split l)
         | "api", None -> api_line (List.nth t 1) (nn 2) ^ (if List.nth t 1 = "pa" then " dbgalign=" ^ dec_of_n c15_debug_alignment ^ " mv=" ^ b01 (c15_pa_equal true false) else "") ^ " | ok"
         | "api", Some l -> if String.trim l = api_line (List.nth t 1) (nn 2) ^ (if List.nth t 1 = "pa" then " dbgalign=" ^ dec_of_n c15_debug_alignment ^ " mv=" ^ b01 (c15_pa_equal true false) else "") then "ok" else "REJECT allocator interface (max_size / operator== / rebind): " ^ l
         | "isaligned", None ->
           let b x = if x then "1" else "0" in
           b (c15_isAligned (nn 1) (nn 2)) ^ " | " ^ (if c15_isAligned (nn 1) (nn 2) = c15_spec_isAligned (nn 1) (nn 2) then "ok" else "REJECT model differs from p mod align = 0")
         | "isaligned", Some l ->
           if String.trim l = (if c15_spec_isAligned (nn 1) (nn 2) then "1" else "0") then "ok" else "REJECT isAligned(" ^ List.nth t 1 ^ "," ^ List.nth t 2 ^ ") = " ^ l
         | "stl", None -> let toks = stl_model (List.nth t 1) (nn 6) (nn 7) (if List.nth t 1 = "pa" then nn 5 else N0) (drop 8 t) in String.concat " " toks ^ " | " ^ (if toks = ["NOGEOM"] then "ok" else stl_oracle (List.nth t 1) (drop 8 t) toks)
         | "stl", Some l -> stl_oracle (List.nth t 1) (drop 8 t) (split l)
         | "multi", None -> let m, o = do_multi (nn 1) (nn 2) (nn 3) (drop 4 t) in m ^ " | " ^ o
         | "multi", Some l -> if l = "NOGEOM" then "ok" else multi_oracle (nn 1) (nn 2) (List.map parse_mop (drop 4 t)) (split l)
         | "alignedbase", None ->
           (* AlignedBase<align>::operator new / new[] (count, ptr) at a 4096-aligned buffer + off; mode 0/1: recording handler (new / new[]),
              2: default handler (abort), 3: empty handler *)
           let mode = if List.length t > 3 then int_of_string (List.nth t 3) else 0 in
           let h = (match mode with 2 -> HandlerDefault | 3 -> HandlerEmpty | _ -> HandlerUser) in
           let str = function PlacePlaced -> "placed" | PlaceReported -> "violated" | PlaceAbort -> "ABORT(invalid_alignment)" in
           let m = str (c15_alignedbase_new h (N.add (n_of_int 1048576) (nn 2)) (nn 1)) in
           let exp = if c15_spec_isAligned (nn 2) (nn 1) then "placed" else (match mode with 2 -> "ABORT(invalid_alignment)" | 3 -> "placed" | _ -> "violated") in
           m ^ " | " ^ (if m = exp then "ok" else "REJECT model differs from off mod align = 0")
         | "alignedbase", Some l ->
           let mode = if List.length t > 3 then int_of_string (List.nth t 3) else 0 in
           let exp = if c15_spec_isAligned (nn 2) (nn 1) then "placed" else (match mode with 2 -> "ABORT(invalid_alignment)" | 3 -> "placed" | _ -> "violated") in
           if String.trim l = exp then "ok"
           else "REJECT AlignedBase placement new at offset " ^ List.nth t 2 ^ " for alignment " ^ List.nth t 1 ^ ": " ^ l
         | _, _ -> "UNKNOWN-KIND")
      with e -> "DRIVER-ERROR " ^ Printexc.to_string e in
    print_endline out
  done with End_of_file -> ())
