(* C15 model driver.
     model cases.txt            -> one line per case:  <model observation> | <oracle verdict on the model's own line>
     model cases.txt impl.out   -> one line per case:  oracle verdict (extracted spec) on the IMPLEMENTATION's line
   Case lines:   pool sT aT S ops.. | pa sT aT s ops.. | malloc sT aT ops.. | aligned sT aT Al ops.. |
                 debug page sT aT ops.. | isaligned p align | alignedbase align off       (ops: a<n> allocate(n), f<i> free i-th live block)
   Observation tokens: pool/pa: G<u>,<size>,<al>,<as>,<cs>,<el>  then per op  c<k>+<off> | bad_alloc | F , then D<bytes>:<c>.<c>..
                 malloc/aligned: ok | bad_alloc | F        debug: ok:o<ptr mod page> | bad_alloc | F | ABORT(..)
   The implementation appends !flag to a token for address-level failures it sees itself (misaligned, overlap, ...). *)
open C15_model

let rec pos_of_int i = if i = 1 then XH else if i land 1 = 0 then XO (pos_of_int (i lsr 1)) else XI (pos_of_int (i lsr 1))
let n_of_int i = if i = 0 then N0 else Npos (pos_of_int i)
let rec int_of_pos = function XH -> 1 | XO p -> 2 * int_of_pos p | XI p -> 2 * int_of_pos p + 1
let int_of_n = function N0 -> 0 | Npos p -> int_of_pos p
let rec nat_of_int i = if i <= 0 then O else S (nat_of_int (i - 1))
let rec int_of_nat = function O -> 0 | S n -> 1 + int_of_nat n
let ten = n_of_int 10
let n_of_dec (s : string) : n =
  let r = ref N0 in
  String.iter (fun c -> if c >= '0' && c <= '9' then r := N.add (N.mul !r ten) (n_of_int (Char.code c - 48)) else failwith "dec") s; !r
let dec_of_n (x : n) : string =
  let rec go x acc = if x = N0 then acc else go (N.div x ten) (string_of_int (int_of_n (N.modulo x ten)) ^ acc) in
  let s = go x "" in if s = "" then "0" else s

let parse_op (t : string) : c15_op =
  let rest = String.sub t 1 (String.length t - 1) in
  match t.[0] with
  | 'a' -> OpAlloc (n_of_dec rest)
  | 'f' -> OpFree (nat_of_int (int_of_string rest))
  | _ -> failwith "op"

let obs_str = function
  | ObsBlock (c, off) -> Printf.sprintf "c%d+%s" (int_of_nat c) (dec_of_n off)
  | ObsBadAlloc -> "bad_alloc" | ObsFreed -> "F" | ObsPrecond -> "PRECOND" | ObsOutOfFuel -> "OUTOFFUEL" | ObsAbort -> "ABORT"
let parse_obs (t : string) : c15_obs =
  if t = "bad_alloc" then ObsBadAlloc else if t = "F" then ObsFreed
  else if String.length t > 1 && t.[0] = 'c' then
    (match String.index_opt t '+' with
     | Some i -> (try ObsBlock (nat_of_int (int_of_string (String.sub t 1 (i - 1))), n_of_dec (String.sub t (i + 1) (String.length t - i - 1)))
                  with _ -> ObsAbort)
     | None -> ObsAbort)
  else ObsAbort

let rec take k l = if k = 0 then [] else match l with [] -> [] | h :: t -> h :: take (k - 1) t
let has_bang s = String.contains s '!'
let starts p s = String.length s >= String.length p && String.sub s 0 (String.length p) = p
let is_crash s = starts "CRASH" s || starts "ABORT" s || starts "EXC" s || starts "HANG" s || starts "NOT-RUN" s
let split s = List.filter (fun x -> x <> "") (String.split_on_char ' ' (String.trim s))

(* first prefix length at which `ok k` fails *)
let first_bad n ok = let rec go k = if k > n then n else if ok k then go (k + 1) else k in go 1

let geom_tok g = Printf.sprintf "G%s,%s,%s,%s,%s,%s" (dec_of_n g.g_unionSize) (dec_of_n g.g_size) (dec_of_n g.g_alignment)
    (dec_of_n g.g_alignedSize) (dec_of_n g.g_chunkSize) (dec_of_n g.g_elements)

(* ---- pool ---- *)
let pool_oracle sT aT ops (toks : string list) : string =
  match List.find_opt has_bang toks, List.find_opt is_crash toks with
  | Some t, _ -> "REJECT harness flag " ^ t
  | None, Some t -> "REJECT trace incomplete: " ^ t
  | None, None ->
    let nops = List.length ops in
    if List.length toks <> nops + 2 then
      "REJECT trace incomplete: " ^ (match List.rev toks with t :: _ -> t | [] -> "(empty)")
    else begin
      let obs = List.map parse_obs (take nops (List.tl toks)) in
      let d = List.nth toks (nops + 1) in
      let bytes, rel =
        try
          let i = String.index d ':' in
          let b = n_of_dec (String.sub d 1 (i - 1)) in
          let r = String.sub d (i + 1) (String.length d - i - 1) in
          b, List.map (fun x -> nat_of_int (int_of_string x)) (List.filter (fun x -> x <> "") (String.split_on_char '.' r))
        with _ -> N0, [O; O; O; O; O; O; O; O; O; O; O; O; O; O; O; O; O] in
      if not (c15_spec_trace sT aT bytes O [] ops obs) then begin
        let k = first_bad nops (fun k -> c15_spec_trace sT aT bytes O [] (take k ops) (take k obs)) in
        (match List.nth ops (k - 1) with
         | OpAlloc n when n <> n_of_int 1 -> Printf.sprintf "REJECT allocate(n) with n <> 1 not refused at op %d: %s" (k - 1) (List.nth toks k)
         | _ -> Printf.sprintf "REJECT block predicate fails at op %d: %s" (k - 1) (List.nth toks k))
      end else if not (c15_spec_destroy (c15_spec_nchunks obs) rel) then "REJECT destroy does not release every chunk once: " ^ d
      else "ok"
    end

let do_pool pa sT aT s opsl =
  let ops = List.map parse_op opsl in
  if not (c15_ops_ok O ops) then "BADCASE", "BADCASE" else
  match (if pa then c15_pa_geometry sT aT s else c15_geometry sT aT s) with
  | None -> "NOGEOM", "ok"
  | Some g ->
    let obs, st = c15_run g c15_client_empty ops in
    let rel = c15_pool_destroy st.cl_pool in
    let nb = if rel = [] then N0 else c15_chunk_bytes g in
    let toks = [geom_tok g] @ List.map obs_str obs @
               [Printf.sprintf "D%s:%s" (dec_of_n nb) (String.concat "." (List.map (fun c -> string_of_int (int_of_nat c)) rel))] in
    String.concat " " toks, pool_oracle sT aT ops toks

(* ---- malloc / aligned ---- *)
let sys_oracle sT ops (toks : string list) : string =
  match List.find_opt has_bang toks, List.find_opt is_crash toks with
  | Some t, _ -> "REJECT harness flag " ^ t
  | None, Some t -> "REJECT trace incomplete: " ^ t
  | None, None ->
    if List.length toks <> List.length ops then "REJECT trace incomplete: " ^ (match List.rev toks with t :: _ -> t | [] -> "(empty)")
    else
      let rec go ops toks nlive = match ops, toks with
        | [], [] -> "ok"
        | OpAlloc n :: r, "ok" :: tr -> if c15_spec_malloc_must_refuse sT n then "REJECT request beyond max_size served: a" ^ dec_of_n n else go r tr (nlive + 1)
        | OpAlloc _ :: r, "bad_alloc" :: tr -> go r tr nlive
        | OpFree i :: r, "F" :: tr -> if int_of_nat i < nlive then go r tr (nlive - 1) else "REJECT free of a dead block"
        | _, t :: _ -> "REJECT unexpected " ^ t
        | _, [] -> "REJECT short" in
      go ops toks 0

let do_sys aligned sT aT al opsl =
  let ops = List.map parse_op opsl in
  let rec go ops nlive = match ops with
    | [] -> []
    | OpAlloc n :: r ->
      let res = if aligned then c15_aligned_allocate sT aT al n c15_sys_aligned else c15_malloc_allocate sT aT n c15_sys_malloc c15_sys_aligned in
      (match res with C15Ok _ -> "ok" :: go r (nlive + 1) | C15BadAlloc -> "bad_alloc" :: go r nlive | _ -> "PRECOND" :: go r nlive)
    | OpFree i :: r -> if int_of_nat i < nlive then "F" :: go r (nlive - 1) else "PRECOND" :: go r nlive in
  let toks = go ops 0 in
  String.concat " " toks, sys_oracle sT ops toks

(* ---- debug ---- *)
let dbg_parse_obs sT (op : c15_op) (t : string) : c15_dbg_obs =
  if t = "bad_alloc" then DObsBadAlloc else if t = "F" then DObsFreed
  else if String.length t > 4 && String.sub t 0 4 = "ok:o" then
    (match op with OpAlloc n -> (try DObsOk (n_of_dec (String.sub t 4 (String.length t - 4)), N.mul n sT, true) with _ -> DObsAbort DbgNotFound)
                 | _ -> DObsAbort DbgNotFound)
  else DObsAbort DbgNotFound

let dbg_oracle page sT aT ops (toks : string list) : string =
  match List.find_opt has_bang toks with
  | Some t -> "REJECT harness flag " ^ t
  | None ->
    let nt = List.length toks in
    let opsk = take nt ops in
    let obs = List.map2 (dbg_parse_obs sT) opsk (take (List.length opsk) toks) in
    if nt = List.length ops && c15_spec_dbg_trace page sT aT O ops obs then "ok"
    else begin
      let k = first_bad nt (fun k -> c15_spec_dbg_trace page sT aT O (take k ops) (take k obs)) in
      Printf.sprintf "REJECT debug allocator trace fails at op %d: %s" (k - 1) (if k >= 1 && k <= nt then List.nth toks (k - 1) else "(missing)")
    end

let dbg_obs_str sT op = function
  | DObsOk (off, cap, g) ->
    let n = (match op with OpAlloc n -> n | _ -> N0) in
    "ok:o" ^ dec_of_n off ^ (if cap = N.mul n sT then "" else "!short") ^ (if g then "" else "!noguard")
  | DObsBadAlloc -> "bad_alloc" | DObsFreed -> "F" | DObsPrecond -> "PRECOND"
  | DObsAbort DbgNotFound -> "ABORT(memory_block_not_found)"
  | DObsAbort _ -> "ABORT(assertion)"

let do_debug page sT aT opsl =
  let ops = List.map parse_op opsl in
  let obs = c15_dbg_run true true page sT (c15_dbg_state0 page) ops in
  let toks = List.map2 (dbg_obs_str sT) (take (List.length obs) ops) obs in
  String.concat " " toks, dbg_oracle page sT aT ops toks

let () =
  let ic = open_in Sys.argv.(1) in
  let impl = if Array.length Sys.argv > 2 then Some (open_in Sys.argv.(2)) else None in
  (try while true do
    let line = input_line ic in
    let t = split line in
    let il = (match impl with Some c -> (try Some (input_line c) with End_of_file -> Some "") | None -> None) in
    let nn k = n_of_dec (List.nth t k) in
    let rec drop k l = if k = 0 then l else drop (k - 1) (List.tl l) in
    let out =
      try
        (match List.hd t, il with
         | ("pool" | "pa"), None -> let m, o = do_pool (List.hd t = "pa") (nn 1) (nn 2) (nn 3) (drop 4 t) in m ^ " | " ^ o
         | ("pool" | "pa"), Some l ->
           if l = "NOGEOM" then "ok" else pool_oracle (nn 1) (nn 2) (List.map parse_op (drop 4 t)) (split l)
         | "malloc", None -> let m, o = do_sys false (nn 1) (nn 2) None (drop 3 t) in m ^ " | " ^ o
         | "malloc", Some l -> sys_oracle (nn 1) (List.map parse_op (drop 3 t)) (split l)
         | "aligned", None ->
           let al = if List.nth t 3 = "-1" then None else Some (nn 3) in
           let m, o = do_sys true (nn 1) (nn 2) al (drop 4 t) in m ^ " | " ^ o
         | "aligned", Some l -> sys_oracle (nn 1) (List.map parse_op (drop 4 t)) (split l)
         | "debug", None -> let m, o = do_debug (nn 1) (nn 2) (nn 3) (drop 4 t) in m ^ " | " ^ o
         | "debug", Some l -> dbg_oracle (nn 1) (nn 2) (nn 3) (List.map parse_op (drop 4 t)) (split l)
         | "isaligned", None ->
           let b x = if x then "1" else "0" in
           b (c15_isAligned (nn 1) (nn 2)) ^ " | " ^ (if c15_isAligned (nn 1) (nn 2) = c15_spec_isAligned (nn 1) (nn 2) then "ok" else "REJECT model differs from p mod align = 0")
         | "isaligned", Some l ->
           if String.trim l = (if c15_spec_isAligned (nn 1) (nn 2) then "1" else "0") then "ok" else "REJECT isAligned(" ^ List.nth t 1 ^ "," ^ List.nth t 2 ^ ") = " ^ l
         | "alignedbase", None ->
           (* AlignedBase<align>::operator new(count, ptr): violatedAlignment iff !isAligned(ptr, align); ptr = 4096-aligned buffer + off *)
           let m = if c15_isAligned (N.add (n_of_int 1048576) (nn 2)) (nn 1) then "placed" else "violated" in
           m ^ " | " ^ (if (m = "placed") = c15_spec_isAligned (nn 2) (nn 1) then "ok" else "REJECT model differs from off mod align = 0")
         | "alignedbase", Some l ->
           if String.trim l = (if c15_spec_isAligned (nn 2) (nn 1) then "placed" else "violated") then "ok"
           else "REJECT AlignedBase placement new at offset " ^ List.nth t 2 ^ " for alignment " ^ List.nth t 1 ^ ": " ^ l
         | _, _ -> "UNKNOWN-KIND")
      with e -> "DRIVER-ERROR " ^ Printexc.to_string e in
    print_endline out
  done with End_of_file -> ())
