(* C16 model driver: reads the case file, prints one line per case:
     <model observation> | <spec observation (positions / lists / folds)>
   Token format identical to harness/C16/impl.cc. *)
open C16_model

let rec pos_of_int i = if i = 1 then XH else if i land 1 = 0 then XO (pos_of_int (i lsr 1)) else XI (pos_of_int (i lsr 1))
let z_of_int i = if i = 0 then Z0 else if i > 0 then Zpos (pos_of_int i) else Zneg (pos_of_int (-i))
let rec int_of_pos = function XH -> 1 | XO p -> 2 * int_of_pos p | XI p -> 2 * int_of_pos p + 1
let int_of_z = function Z0 -> 0 | Zpos p -> int_of_pos p | Zneg p -> - (int_of_pos p)
let rec nat_of_int i = if i <= 0 then O else S (nat_of_int (i - 1))
let z10 = z_of_int 10
(* arbitrary-size decimal <-> Z *)
let z_of_string (s : string) : z =
  let neg = String.length s > 0 && s.[0] = '-' in
  let r = ref Z0 in
  String.iteri (fun i c -> if not (i = 0 && neg) then r := Z.add (Z.mul !r z10) (z_of_int (Char.code c - 48))) s;
  if neg then Z.opp !r else !r
let string_of_z (x : z) : string =
  let neg = Z.ltb x Z0 in
  let x = if neg then Z.opp x else x in
  let rec go x acc = if x = Z0 then acc else go (Z.div x z10) (string_of_int (int_of_z (Z.modulo x z10)) ^ acc) in
  let s = go x "" in
  (if neg then "-" else "") ^ (if s = "" then "0" else s)

let split_on c s = List.filter (fun x -> x <> "") (String.split_on_char c s)
let zlist s = if s = "-" || s = "" then [] else List.map z_of_string (split_on ',' s)
let join l = if l = [] then "-" else String.concat "," l
let b01 b = if b then "1" else "0"
let bits l = String.concat "" (List.map b01 l)
let ovz = function Some v -> string_of_z v | None -> "-"

let ity_of = function
  | "i8" -> { c16_bits = z_of_int 8; c16_signed = true } | "u8" -> { c16_bits = z_of_int 8; c16_signed = false }
  | "i16" -> { c16_bits = z_of_int 16; c16_signed = true } | "u16" -> { c16_bits = z_of_int 16; c16_signed = false }
  | "i32" -> { c16_bits = z_of_int 32; c16_signed = true } | "u32" -> { c16_bits = z_of_int 32; c16_signed = false }
  | "i64" | "ill" -> { c16_bits = z_of_int 64; c16_signed = true } | "u64" | "ull" -> { c16_bits = z_of_int 64; c16_signed = false }
  | "ch" -> { c16_bits = z_of_int 8; c16_signed = true }
  | _ -> failwith "type"

(* a random-access kind: operator table (depending on the convertibility flag), embedding of positions *)
type kind = { ops : bool -> (z, z option) c16_ops; rep : int -> z; unrep : z -> int; lo : int; n : int;
              two : bool; value : int -> string; always : bool; nplus : bool; conv : bool; arrow : bool }

let rec iter f n x = if n <= 0 then x else iter f (n - 1) (f x)
let contents n = List.init n (fun p -> z_of_int (1000 + p))
let kind_of (ks : string) (n : int) : kind =
  let kp = String.split_on_char ':' ks in
  let xs = contents n in
  let v1000 p = string_of_int (1000 + p) in
  match List.hd kp with
  | "dyn" | "fv" | "fmrow" | "dmrow" | "dynov" ->
      { ops = (fun conv -> c16_legacy_ops (c16_dense_prims xs) conv); rep = (fun p -> c16_dense_rep (z_of_int p));
        unrep = (fun x -> int_of_z (c16_dense_unrep x)); lo = -1; n; two = true; value = v1000; always = false; nplus = false; conv = true; arrow = false }
  | "gen" | "genov" ->
      { ops = (fun conv -> c16_legacy_ops (c16_generic_prims xs) conv); rep = z_of_int; unrep = int_of_z; lo = -1; n; two = true;
        value = v1000; always = false; nplus = false; conv = true; arrow = false }
  | "al" | "al1" | "al8" ->          (* the chunk size N does not enter the iterator arithmetic: slots are absolute *)
      let s = int_of_string (List.nth kp 1) in
      let st = List.init s (fun _ -> z_of_int (-7)) @ xs in
      { ops = (fun conv -> c16_legacy_ops (c16_alist_prims (z_of_int s) (z_of_int n) st) conv);
        rep = (fun p -> c16_alist_rep (z_of_int s) (z_of_int p)); unrep = (fun x -> int_of_z (c16_alist_unrep (z_of_int s) x));
        lo = 0; n; two = true; value = v1000; always = false; nplus = false; conv = true; arrow = false }
  | "tr" | "trl" ->
      let f x = Z.add (Z.mul (z_of_int 3) x) (z_of_int 1) in
      { ops = (fun _ -> c16_tr_ops f xs); rep = z_of_int; unrep = int_of_z; lo = 0; n; two = true;
        value = (fun p -> string_of_int (3 * (1000 + p) + 1)); always = false; nplus = true; conv = false; arrow = false }
  | "ir" ->
      let t = ity_of (List.nth kp 1) in
      let from = z_of_string (List.nth kp 2) in
      { ops = (fun _ -> c16_ir_ops_src t);           (* comparison tokens as re-read from the source (Params_gen.v) *)
        rep = (fun p -> c16_ir_rep t from (z_of_int p)); unrep = (fun x -> int_of_z (c16_ir_unrep t from x));
        lo = (if Z.ltb (c16_tmin t) from then -1 else 0); n; two = false;
        value = (fun p -> string_of_z (Z.add from (z_of_int p))); always = true; nplus = true; conv = true; arrow = false }
  | "nfptri" ->
      { ops = (fun _ -> c16_nf_ops (c16_vec_base xs) (fun p -> c16_at xs p)); rep = z_of_int; unrep = int_of_z; lo = -1; n; two = false; value = v1000;
        always = false; nplus = true; conv = true; arrow = false }
  | "nfman" | "nfptr" ->
      let xs' = xs in
      let star p = c16_at xs' p in
      { ops = (fun _ -> if List.hd kp = "nfman" then c16_nf_ops_manual (c16_vec_base xs') star else c16_nf_ops (c16_vec_base xs') star);
        rep = z_of_int; unrep = int_of_z; lo = -1; n; two = false; value = v1000; always = false; nplus = true; conv = true; arrow = true }
  | _ -> failwith "kind"

let ptok (k : kind) (o : (z, z option) c16_ops) (r : z) : string =
  let p = k.unrep r in
  if p < k.lo || p > k.n then "?none" else
  string_of_int p ^ ":" ^ (if k.always || (p >= 0 && p < k.n) then ovz (o.c16_o_star r) else "-")
let spec_ptok (k : kind) (p : int) : string =
  string_of_int p ^ ":" ^ (if k.always || (p >= 0 && p < k.n) then k.value p else "-")

let cmp6 o a b =
  bits [o.c16_o_eq a b; o.c16_o_ne a b; o.c16_o_lt a b; o.c16_o_le a b; o.c16_o_gt a b; o.c16_o_ge a b] ^ ":" ^ string_of_z (o.c16_o_diff a b)
let spec6 i j = bits (c16_spec_cmp (z_of_int i) (z_of_int j)) ^ ":" ^ string_of_z (c16_spec_diff (z_of_int i) (z_of_int j))
let spec2 i j = String.sub (bits (c16_spec_cmp (z_of_int i) (z_of_int j))) 0 2

(* conv = is_convertible<T2,T1> for (lhs : T1, rhs : T2).  DenseIterator and GenericIterator DECLARE both converting
   constructors in both variants, so the trait is true for every mix and only the first branch of the facade operators
   is ever taken; the ArrayList iterators convert mutable -> const only, so (mutable lhs, const rhs) takes the second
   branch.  The new IteratorFacade has no such case split. *)
let combos_conv_all = [ ("mm", true); ("mc", true); ("cm", true); ("cc", true) ]
let combos = [ ("mm", true); ("mc", false); ("cm", true); ("cc", true) ]

(* DenseIterator / GenericIterator store the container pointer: compare through the container-tagged primitives *)
let tagged_prims ks n =
  let xs = contents n in
  match List.hd (String.split_on_char ':' ks) with
  | "dyn" | "fv" | "fmrow" | "dmrow" | "dynov" -> Some (c16_tag_prims (c16_dense_prims xs), (fun c p -> (z_of_int c, c16_dense_rep (z_of_int p))))
  | "gen" | "genov" -> Some (c16_tag_prims (c16_generic_prims xs), (fun c p -> (z_of_int c, z_of_int p)))
  | _ -> None
let do_cmp ks n i j =
  let k = kind_of ks n in
  if i < k.lo || j < k.lo || i > n || j > n then ("BADCASE", "BADCASE") else
  match tagged_prims ks n with
  | Some (tp, trep) ->
      String.concat " " (List.map (fun (nm, conv) -> nm ^ "=" ^ cmp6 (c16_legacy_ops tp conv) (c16_convert (trep 1 i)) (trep 1 j)) combos_conv_all),
      String.concat " " (List.map (fun (nm, _) -> nm ^ "=" ^ spec6 i j) combos_conv_all)
  | None ->
  let cs = if not k.two then [ ("mm", true) ] else if String.length ks >= 2 && String.sub ks 0 2 = "al" then combos else combos_conv_all in
  String.concat " " (List.map (fun (nm, conv) -> nm ^ "=" ^ cmp6 (k.ops conv) (k.rep i) (k.rep j)) cs),
  String.concat " " (List.map (fun (nm, _) -> nm ^ "=" ^ spec6 i j) cs)

let do_cmpx ks n i j =
  match tagged_prims ks n with
  | None -> ("BADCASE", "BADCASE")
  | Some (tp, trep) ->
  String.concat " " (List.map (fun (nm, conv) ->
      let o = c16_legacy_ops tp conv in
      nm ^ "=" ^ b01 (o.c16_o_eq (trep 1 i) (trep 2 j)) ^ b01 (o.c16_o_ne (trep 1 i) (trep 2 j))) combos),
  String.concat " " (List.map (fun (nm, _) -> nm ^ "=01") combos)


let do_step ks n var i kk =
  let k = kind_of ks n in
  if i < k.lo || i > n || i + kk < k.lo || i + kk > n then ("BADCASE", "BADCASE") else
  let o = k.ops true in
  let it = k.rep i and zk = z_of_int kk in
  let pt = ptok k o and sp = spec_ptok k in
  let m = Buffer.create 200 and s = Buffer.create 200 in
  let add name mv sv = (if Buffer.length m > 0 then (Buffer.add_char m ' '; Buffer.add_char s ' '));
    Buffer.add_string m (name ^ "=" ^ mv); Buffer.add_string s (name ^ "=" ^ sv) in
  add "plus" (pt (o.c16_o_plus it zk)) (sp (i + kk));
  add "pluseq" (pt (o.c16_o_pluseq it zk)) (sp (i + kk));
  add "minus" (pt (o.c16_o_minus it (Z.opp zk))) (sp (i + kk));
  add "minuseq" (pt (o.c16_o_minuseq it (Z.opp zk))) (sp (i + kk));
  add "idx" (if k.always || (i + kk >= 0 && i + kk < n) then ovz (o.c16_o_index it zk) else "-")
            (if k.always || (i + kk >= 0 && i + kk < n) then k.value (i + kk) else "-");
  add "steps" (pt (c16_steps o it zk)) (sp (i + kk));
  add "back" (string_of_z (o.c16_o_diff (o.c16_o_plus it zk) it)) (string_of_int kk);
  if i + 1 <= n then add "incdec" (pt (o.c16_o_dec (o.c16_o_inc it))) (sp i) else add "incdec" "-" "-";
  if i - 1 >= k.lo then add "decinc" (pt (o.c16_o_inc (o.c16_o_dec it))) (sp i) else add "decinc" "-" "-";
  let pair (a, b) = pt a ^ "/" ^ pt b in
  if i + 1 <= n then add "postinc" (pair (c16_post_inc o it)) (sp i ^ "/" ^ sp (i + 1)) else add "postinc" "-" "-";
  if i - 1 >= k.lo then add "postdec" (pair (c16_post_dec o it)) (sp i ^ "/" ^ sp (i - 1)) else add "postdec" "-" "-";
  if k.nplus then add "nplus" (pt (c16_nplus o zk it)) (sp (i + kk));
  add "copy" (pt (c16_copy it)) (sp i);
  add "assign" (pt (c16_copy it)) (sp i);
  if k.conv then (add "conv" (pt (c16_copy it)) (sp i); add "convassign" (pt (c16_copy it)) (sp i))
  else (add "conv" "n/a" "n/a"; add "convassign" "n/a" "n/a");
  if k.arrow then add "arrow" (if i >= 0 && i < n then ovz (c16_arrow o it) else "-") (if i >= 0 && i < n then k.value i else "-");
  ignore var;
  (Buffer.contents m, Buffer.contents s)

(* SLList: forward iterators in three variants i(terator) c(onst) m(odify); conv = is_convertible<T2,T1> *)
let sl_combos = [ "ii"; "ic"; "im"; "ci"; "cc"; "cm"; "mi"; "mc"; "mm" ]
let sl_obj c p = match c with 'i' -> C16SlIt (z_of_int p) | 'c' -> C16SlConst (z_of_int p) | _ -> iter c16_sl_inc p c16_sl_begin_modify
let sl_cmp n i j =
  if i < 0 || j < 0 || i > n || j > n then ("BADCASE", "BADCASE") else
  String.concat " " (List.map (fun nm -> let l = sl_obj nm.[0] i and r = sl_obj nm.[1] j in
      nm ^ "=" ^ b01 (c16_sl_facade_eq l r) ^ b01 (c16_sl_facade_ne l r)) sl_combos),
  String.concat " " (List.map (fun nm -> nm ^ "=" ^ spec2 i j) sl_combos)
let sl_step n var i kk =
  if i < 0 || kk < 0 || i + kk > n then ("BADCASE", "BADCASE") else
  let xs = contents n in
  let o = c16_legacy_ops (c16_sl_prims xs) true in
  let pt x = let p = int_of_z (c16_sl_cur x) in string_of_int p ^ ":" ^ (if p >= 0 && p < n then ovz (o.c16_o_star (c16_sl_cur x)) else "-") in
  let sp p = string_of_int p ^ ":" ^ (if p >= 0 && p < n then string_of_int (1000 + p) else "-") in
  let it = sl_obj var.[0] i in
  let m = "steps=" ^ pt (iter c16_sl_inc kk it) ^ " postinc=" ^ (if i + 1 <= n then pt (c16_copy it) ^ "/" ^ pt (c16_sl_inc it) else "-") in
  let s = "steps=" ^ sp (i + kk) ^ " postinc=" ^ (if i + 1 <= n then sp i ^ "/" ^ sp (i + 1) else "-") in
  (m, s)

(* bidirectional new-facade iterator (TransformedRangeView over std::list) *)
let trl_cmp n i j =
  if i < 0 || j < 0 || i > n || j > n then ("BADCASE", "BADCASE") else
  let k = kind_of "trl" n in
  let o = k.ops true in
  String.concat " " (List.map (fun (nm, _) -> nm ^ "=" ^ b01 (o.c16_o_eq (k.rep i) (k.rep j)) ^ b01 (o.c16_o_ne (k.rep i) (k.rep j))) combos),
  String.concat " " (List.map (fun (nm, _) -> nm ^ "=" ^ spec2 i j) combos)
let trl_step n i kk =
  if i < 0 || i > n || i + kk < 0 || i + kk > n then ("BADCASE", "BADCASE") else
  let k = kind_of "trl" n in
  let o = k.ops true in
  let it = k.rep i in
  let pt = ptok k o and sp = spec_ptok k in
  let m = Buffer.create 100 and s = Buffer.create 100 in
  let add name mv sv = (if Buffer.length m > 0 then (Buffer.add_char m ' '; Buffer.add_char s ' '));
    Buffer.add_string m (name ^ "=" ^ mv); Buffer.add_string s (name ^ "=" ^ sv) in
  add "steps" (pt (c16_steps o it (z_of_int kk))) (sp (i + kk));
  if i + 1 <= n then add "incdec" (pt (o.c16_o_dec (o.c16_o_inc it))) (sp i) else add "incdec" "-" "-";
  if i - 1 >= 0 then add "decinc" (pt (o.c16_o_inc (o.c16_o_dec it))) (sp i) else add "decinc" "-" "-";
  if i + 1 <= n then add "postinc" (pt it ^ "/" ^ pt (o.c16_o_inc it)) (sp i ^ "/" ^ sp (i + 1)) else add "postinc" "-" "-";
  if i - 1 >= 0 then add "postdec" (pt it ^ "/" ^ pt (o.c16_o_dec it)) (sp i ^ "/" ^ sp (i - 1)) else add "postdec" "-" "-";
  (Buffer.contents m, Buffer.contents s)

(* IndexedIterator *)
let idx_case base n i0 ops =
  let xs = contents n in
  let parse o = match o.[0] with
    | '+' | 'a' -> C16Inc | '-' | 'b' -> C16Dec
    | 'p' -> C16PlusEq (z_of_int (int_of_string (String.sub o 1 (String.length o - 1))))
    | 'm' -> C16MinusEq (z_of_int (int_of_string (String.sub o 1 (String.length o - 1))))
    | _ -> failwith "op" in
  let l = List.map parse ops in
  let delta = List.fold_left (fun s o -> match o with C16Inc -> s + 1 | C16Dec -> s - 1
                                                     | C16PlusEq z -> s + int_of_z z | C16MinusEq z -> s - int_of_z z) 0 l in
  let o, rep, unrep = match base with
    | "ir" -> let k = kind_of "ir:i32:1000" n in (k.ops true, k.rep, k.unrep)
    | "al" -> let k = kind_of "al:2" n in (k.ops true, k.rep, k.unrep)
    | "tr" -> let k = kind_of "tr" n in (k.ops true, k.rep, k.unrep)
    | "vec" -> (c16_nf_ops (c16_vec_base xs) (fun p -> c16_at xs p), z_of_int, int_of_z)
    | _ -> (c16_legacy_ops (c16_dense_prims xs) true, (fun p -> c16_dense_rep (z_of_int p)), (fun x -> int_of_z (c16_dense_unrep x))) in
  let step x op raw = (match raw.[0] with
      | 'a' -> snd (c16_idx_post_inc o x) | 'b' -> snd (c16_idx_post_dec o x)
      | _ -> c16_idx_run o x [op]) in
  let (it, ix) = List.fold_left2 step (rep 0, z_of_string i0) l ops in
  let p = unrep it in
  let tok p v = string_of_int p ^ ":" ^ (if p >= 0 && p < n then v else "-") in
  let (dit, dix) = c16_copy (it, ix) in
  let sval d = if base = "tr" then string_of_int (3 * (1000 + d) + 1) else string_of_int (1000 + d) in
  let mp = tok p (ovz (o.c16_o_star it)) and sp = tok delta (sval delta) in
  let si = string_of_z (Z.add (z_of_string i0) (z_of_int delta)) in
  ("pos=" ^ mp ^ " index=" ^ string_of_z (c16_idx_index (it, ix)) ^ " dindex=" ^ string_of_z (c16_idx_index (dit, dix)) ^ " dpos=" ^ tok (unrep dit) (ovz (o.c16_o_star dit)),
   "pos=" ^ sp ^ " index=" ^ si ^ " dindex=" ^ si ^ " dpos=" ^ sp)

let res_list f = function C16Ok l -> join (List.map f l) | C16OutOfFuel -> "OUTOFFUEL"

let irange_case static t =
  (* irange <T> <from> <to> <xs>   |   sirange <id> <T> <from> <to> <xs> *)
  let off = if static then 1 else 0 in
  let ty = ity_of (List.nth t (1 + off)) in
  let from = z_of_string (List.nth t (2 + off)) and to_ = z_of_string (List.nth t (3 + off)) in
  let xs = if List.length t > 4 + off then zlist (List.nth t (4 + off)) else [] in
  let elems = res_list ovz (c16_range_for (c16_ir_ops_src ty) (nat_of_int 45) (c16_iterrange from to_)) in
  let size = if static then c16_sirange_size ty from to_ else c16_irange_size ty from to_ in
  let at_fn = if static then c16_sirange_at else c16_irange_at in
  let at = join (List.init (int_of_z size) (fun i -> string_of_z (at_fn ty from (z_of_int i)))) in
  let cont = if xs = [] then "-" else String.concat "" (List.map (fun x -> b01 (c16_irange_contains from to_ x)) xs) in
  let sl = c16_spec_irange from to_ in
  let sel = join (List.map string_of_z sl) in
  let scont = if xs = [] then "-" else String.concat "" (List.map (fun x -> b01 (Z.leb from x && Z.ltb x to_)) xs) in
  if static then
    let sq = c16_sirange_seq ty from to_ in
    let ats l = if l = [] then "-" else join [string_of_z (List.hd l); string_of_z (List.nth l (List.length l - 1))] in
    let f1 m = if from = Z0 then m else "n/a" in
    (Printf.sprintf "elems=%s size=%s empty=%s at=%s seq=%s ats=%s fac=%s tis=%s fac1=%s dyn=%s cont=%s" elems (string_of_z size) (b01 (c16_irange_empty from to_)) at
       (join (List.map string_of_z sq)) (ats (List.init (int_of_z size) (fun i -> c16_irange_at ty from (z_of_int i)))) elems (join (List.map string_of_z sq)) (f1 elems) elems cont,
     Printf.sprintf "elems=%s size=%s empty=%s at=%s seq=%s ats=%s fac=%s tis=%s fac1=%s dyn=%s cont=%s" sel (string_of_z (Z.sub to_ from)) (b01 (from = to_)) sel sel (ats sl) sel sel (f1 sel) sel scont)
  else
    let one m = if from = Z0 then m else "-" in
    (Printf.sprintf "elems=%s size=%s empty=%s at=%s cont=%s pair=%s one=%s rone=%s" elems (string_of_z size) (b01 (c16_irange_empty from to_)) at cont elems (one elems) (one elems),
     Printf.sprintf "elems=%s size=%s empty=%s at=%s cont=%s pair=%s one=%s rone=%s" sel (string_of_z (Z.sub to_ from)) (b01 (from = to_)) sel scont sel (one sel) (one sel))

let tr_case t =
  let base = List.nth t 1 in
  let a = z_of_string (List.nth t 2) and b = z_of_string (List.nth t 3) in
  let xs0 = if List.length t > 4 then zlist (List.nth t 4) else [] in
  let xs = if base = "ir" then c16_spec_irange (List.nth xs0 0) (List.nth xs0 1) else xs0 in
  let f x = Z.add (Z.mul a x) b in
  let n = List.length xs in
  let fuel = nat_of_int (n + 2) in
  let fo = function Some v -> Some (f v) | None -> None in
  let elems =
    (match base with
     | "al" -> let o = c16_legacy_ops (c16_alist_prims Z0 (z_of_int n) xs) true in
               res_list ovz (c16_range_for (c16_tr_over o fo) fuel (c16_iterrange (c16_alist_rep Z0 Z0) (c16_alist_rep Z0 (z_of_int n))))
     | "dyn" -> let o = c16_legacy_ops (c16_dense_prims xs) true in
                res_list ovz (c16_range_for (c16_tr_over o fo) fuel (c16_iterrange c16_dense_begin (c16_dense_end (z_of_int n))))
     | "ir" -> let o = c16_ir_ops_src (ity_of "i32") in
               res_list ovz (c16_range_for (c16_tr_over o fo) fuel (c16_iterrange (List.nth xs0 0) (List.nth xs0 1)))
     | _ -> res_list ovz (c16_tr_elems f xs fuel)) in
  let ra = base <> "list" in
  let at = if ra then join (List.init n (fun i -> ovz (c16_tr_at f xs (z_of_int i)))) else "-" in
  let sel = join (List.map (fun x -> string_of_z (f x)) xs) in
  let raw = join (List.map string_of_z xs) in
  (Printf.sprintf "elems=%s calls=%s size=%s empty=%s at=%s const=%s cat=%s raw=%s craw=%s" elems raw (string_of_z (c16_tr_size xs))
     (b01 (c16_tr_empty xs)) at elems at raw raw,
   Printf.sprintf "elems=%s calls=%s size=%d empty=%s at=%s const=%s cat=%s raw=%s craw=%s" sel raw n (b01 (n = 0)) (if ra then sel else "-") sel (if ra then sel else "-") raw raw)

let sparse_case t =
  let xs = if List.length t > 2 then zlist (List.nth t 2) else [] in
  let n = List.length xs in
  let fuel = nat_of_int (n + 2) in
  let pr = function (Some v, i) -> string_of_z v ^ ":" ^ string_of_z i | (None, _) -> "-" in
  let pr2 = function Some (v, i) -> string_of_z v ^ ":" ^ string_of_z i | None -> "-" in
  let m = (match List.nth t 1 with
    | "idxvec" ->      (* IteratorRange<IndexedIterator<vector::iterator>> *)
        let vo = c16_nf_ops (c16_vec_base xs) (fun p -> c16_at xs p) in
        res_list pr (c16_range_for (c16_sparse_over (c16_idx_ops vo) c16_idx_index) fuel (c16_iterrange (Z0, Z0) (z_of_int n, z_of_int n)))
    | "dyn" | "cdyn" | "fv3" ->   (* DenseIterator: index() is the position *)
        let o = c16_legacy_ops (c16_dense_prims xs) true in
        res_list pr (c16_range_for (c16_sparse_over o c16_dense_unrep) fuel (c16_iterrange c16_dense_begin (c16_dense_end (z_of_int n))))
    | _ -> res_list pr2 (c16_sparse_elems xs (fun p -> p) fuel)) in
  ("elems=" ^ m, "elems=" ^ join (List.map (fun (v, i) -> string_of_z v ^ ":" ^ string_of_z i) (c16_spec_sparse xs)))

let switch_table = function
  | 0 -> [] | 1 -> [3] | 2 -> [1; 4; 2] | 3 -> [5; 5; 7] | 4 -> [0; 1; 2; 3] | 5 -> [9; 0; 8] | _ -> failwith "table"

let hy_case t =
  let op = List.nth t 1 in
  let tag m = match m with C16Static -> "S" | C16Dynamic -> "D" in
  let both names f = String.concat " " (List.map (fun (nm, m) -> nm ^ "=" ^ f m) names) in
  let cont4 = [ ("tuple", C16Static); ("array", C16Static); ("tv", C16Static); ("vec", C16Dynamic) ] in
  let acc7 a x = Z.add (Z.mul (z_of_int 7) a) x in
  match op with
  | "size" ->
      let n = int_of_string (List.nth t 2) in
      let xs = List.init n (fun _ -> Z0) in
      let names = [ ("tuple", C16Static); ("array", C16Static); ("tv", C16Static); ("iseq", C16Static); ("sir", C16Static); ("hir", C16Static);
                    ("vec", C16Dynamic); ("ir", C16Dynamic); ("dhir", C16Dynamic) ] in
      (both names (fun m -> tag m ^ string_of_z (c16_hy_size m xs)), both names (fun m -> tag m ^ string_of_int n))
  | "foreach" ->
      let xs = if List.length t > 2 then zlist (List.nth t 2) else [] in
      (both cont4 (fun m -> join (List.map string_of_z (c16_hy_log m xs))), both cont4 (fun _ -> join (List.map string_of_z xs)))
  | "acc" ->
      let v0 = z_of_string (List.nth t 2) in
      let xs = if List.length t > 3 then zlist (List.nth t 3) else [] in
      (both cont4 (fun m -> string_of_z (c16_hy_accumulate m acc7 xs v0)), both cont4 (fun _ -> string_of_z (c16_spec_fold acc7 xs v0)))
  | "at" ->
      let xs = if List.length t > 2 then zlist (List.nth t 2) else [] in
      let names = cont4 @ [ ("arraydyn", C16Dynamic) ] in
      (both names (fun m -> join (List.mapi (fun i _ -> ovz (c16_hy_elementAt m xs (z_of_int i))) xs)),
       both names (fun _ -> join (List.map string_of_z xs)))
  | "idx" ->
      let n = int_of_string (List.nth t 2) in
      let xs = c16_spec_irange Z0 (z_of_int n) in
      let names = [ ("iseq", C16Static); ("sir", C16Static); ("hir", C16Static); ("ir", C16Dynamic); ("dhir", C16Dynamic) ] in
      (both names (fun m -> join (List.map (fun x -> tag m ^ string_of_z x) (c16_hy_log m xs))),
       both names (fun m -> join (List.map (fun x -> tag m ^ string_of_z x) xs)))
  | "ifelse" ->
      let c = List.nth t 2 = "1" in
      let one = z_of_int 1 and two = z_of_int 2 in
      (Printf.sprintf "static=%s dyn=%s static1=%s dyn1=%s" (string_of_z (c16_hy_ifElse C16Static c one two)) (string_of_z (c16_hy_ifElse C16Dynamic c one two))
         (string_of_z (c16_hy_ifElse C16Static c one Z0)) (string_of_z (c16_hy_ifElse C16Dynamic c one Z0)),
       let r = if c then "1" else "2" and r1 = if c then "1" else "0" in Printf.sprintf "static=%s dyn=%s static1=%s dyn1=%s" r r r1 r1)
  | "switch" ->
      let cases = List.map z_of_int (switch_table (int_of_string (List.nth t 2))) in
      let v = z_of_string (List.nth t 3) in
      let br i = Z.add (z_of_int 100) i and el = z_of_int (-1) in
      let sp = string_of_z (c16_spec_switch cases v br el) in
      (Printf.sprintf "dyn=%s static=%s" (string_of_z (c16_hy_switch_dynamic cases v br el)) (string_of_z (c16_hy_switch_static cases v br el)),
       Printf.sprintf "dyn=%s static=%s" sp sp)
  | "switchr" ->
      let from = z_of_string (List.nth t 3) and to_ = z_of_string (List.nth t 4) and v = z_of_string (List.nth t 5) in
      let br i = Z.add (z_of_int 100) i and el = z_of_int (-1) in
      let i32 = ity_of "i32" in
      let sp = string_of_z (c16_spec_switch (c16_spec_irange from to_) v br el) in
      (Printf.sprintf "dyn=%s static=%s" (string_of_z (c16_hy_switch_range from to_ v br el))
         (string_of_z (c16_hy_switch_dynamic (c16_sirange_seq i32 from to_) v br el)),
       Printf.sprintf "dyn=%s static=%s" sp sp)
  | "fun" ->
      let o = (match List.nth t 2 with "plus" -> C16Plus | "minus" -> C16Minus | "max" -> C16Max | "min" -> C16Min | _ -> C16EqualTo) in
      let a = int_of_string (List.nth t 3) and b = int_of_string (List.nth t 4) in
      if List.nth t 2 = "minus" && a < b then ("BADCASE", "BADCASE") else
      let r m1 m2 = string_of_z (c16_hy_fun m1 m2 o (z_of_int a) (z_of_int b)) in
      let sv = (match List.nth t 2 with "plus" -> a + b | "minus" -> a - b | "max" -> max a b | "min" -> min a b | _ -> if a = b then 1 else 0) in
      (Printf.sprintf "ss=S%s sd=D%s ds=D%s dd=D%s" (r C16Static C16Static) (r C16Static C16Dynamic) (r C16Dynamic C16Static) (r C16Dynamic C16Dynamic),
       Printf.sprintf "ss=S%d sd=D%d ds=D%d dd=D%d" sv sv sv sv)
  | _ -> ("BADCASE", "BADCASE")

(* ------------------------------------------------------------------ additions of the API-coverage audit *)
let tokline l = String.concat " " (List.map (fun (k, m, _) -> k ^ "=" ^ m) l), String.concat " " (List.map (fun (k, _, sp) -> k ^ "=" ^ sp) l)
let zs l = join (List.map string_of_z l)
let is l = join (List.map string_of_int l)

let cont_case ks n arg =
  let kp = String.split_on_char ':' ks in
  let base = List.hd kp in
  if base = "sl" then
    let sp p = string_of_int p ^ ":" ^ (if p >= 0 && p < n then string_of_int (1000 + p) else "-") in
    let o = c16_legacy_ops (c16_sl_prims (contents n)) true in
    let pt x = let q = int_of_z (c16_sl_cur x) in string_of_int q ^ ":" ^ (if q >= 0 && q < n then ovz (o.c16_o_star (c16_sl_cur x)) else "-") in
    let z = z_of_int in
    let md = iter c16_sl_inc arg c16_sl_begin_modify in
    tokline [ ("begin", pt (C16SlIt (z 0)), sp 0); ("cbegin", pt (C16SlConst (z 0)), sp 0); ("end", pt (C16SlIt (z n)), sp n); ("cend", pt (C16SlConst (z n)), sp n);
              ("bmod", pt c16_sl_begin_modify, sp 0); ("emod", pt (c16_sl_end_modify (z n)), sp n); ("itfrommod", pt (c16_sl_to_it md), sp arg);
              ("cfrommod", pt (c16_sl_to_const md), sp arg); ("cfromit", pt (c16_sl_to_const (C16SlIt (z arg))), sp arg) ]
  else
  let k = kind_of ks n in
  let o = k.ops true in
  let pt = ptok k o and sp = spec_ptok k in
  let be = [ ("begin", pt (k.rep 0), sp 0); ("cbegin", pt (k.rep 0), sp 0); ("end", pt (k.rep n), sp n); ("cend", pt (k.rep n), sp n) ] in
  if base = "al" then
    let st = z_of_int (int_of_string (List.nth kp 1)) in
    tokline [ ("begin", pt (c16_alist_begin st), sp 0); ("cbegin", pt (c16_alist_begin st), sp 0);
              ("end", pt (c16_alist_end st (z_of_int n)), sp n); ("cend", pt (c16_alist_end st (z_of_int n)), sp n) ] else
  if base = "tr" then tokline be else
  let zn = z_of_int n in
  let d = [ ("begin", pt c16_dense_begin, sp 0); ("cbegin", pt c16_dense_begin, sp 0); ("end", pt (c16_dense_end zn), sp n); ("cend", pt (c16_dense_end zn), sp n);
            ("bbegin", pt c16_dense_before_begin, sp (-1)); ("cbbegin", pt c16_dense_before_begin, sp (-1)) ] in
  let d = d @ (if n >= 1 then [ ("bend", pt (c16_dense_before_end zn), sp (n - 1)); ("cbend", pt (c16_dense_before_end zn), sp (n - 1)) ] else [ ("bend", "-", "-"); ("cbend", "-", "-") ]) in
  let d = d @ (if base = "fmrow" then [] else let f = pt (c16_dense_find zn (z_of_int arg)) in [ ("find", f, sp (min arg n)); ("cfind", f, sp (min arg n)) ]) in
  tokline d

(* forward / bidirectional kinds *)
type bkind = { bops : bool -> (z, z option) c16_ops; brep : int -> z; bunrep : z -> int; blo : int; bidir : bool; btwo : bool; barrow : bool;
               bcombos : (string * bool) list }
let bkind_of ks n =
  let xs = contents n in
  match ks with
  | "genbi" -> { bops = (fun c -> c16_legacy_ops (c16_generic_prims xs) c); brep = z_of_int; bunrep = int_of_z; blo = -1; bidir = true; btwo = true; barrow = false; bcombos = combos_conv_all }
  | "genfw" -> { bops = (fun c -> c16_legacy_ops (c16_generic_prims xs) c); brep = z_of_int; bunrep = int_of_z; blo = 0; bidir = false; btwo = true; barrow = false; bcombos = combos_conv_all }
  | "bsv" -> { bops = (fun c -> c16_legacy_ops (c16_generic_prims xs) c); brep = z_of_int; bunrep = int_of_z; blo = 0; bidir = false; btwo = true; barrow = false; bcombos = combos_conv_all }
  | "diag" -> { bops = (fun c -> c16_legacy_ops (c16_cw_prims xs) c); brep = (fun p -> c16_dense_rep (z_of_int p)); bunrep = (fun x -> int_of_z (c16_dense_unrep x));
                blo = -1; bidir = true; btwo = true; barrow = false; bcombos = combos_conv_all }
  | "cbi" -> { bops = (fun c -> c16_legacy_ops (c16_generic_prims xs) c); brep = z_of_int; bunrep = int_of_z; blo = -1; bidir = true; btwo = true; barrow = true; bcombos = combos }
  | "nffw" -> { bops = (fun _ -> c16_nf_ops (c16_vec_base xs) (fun p -> c16_at xs p)); brep = z_of_int; bunrep = int_of_z; blo = 0; bidir = false; btwo = false; barrow = true; bcombos = [ ("mm", true) ] }
  | "nfbi" -> { bops = (fun _ -> c16_nf_ops (c16_vec_base xs) (fun p -> c16_at xs p)); brep = z_of_int; bunrep = int_of_z; blo = -1; bidir = true; btwo = false; barrow = true; bcombos = [ ("mm", true) ] }
  | _ -> failwith "bkind"
let bcmp_case ks n i j =
  let k = bkind_of ks n in
  if i < k.blo || j < k.blo || i > n || j > n then ("BADCASE", "BADCASE") else
  String.concat " " (List.map (fun (nm, conv) -> let o = k.bops conv in nm ^ "=" ^ b01 (o.c16_o_eq (k.brep i) (k.brep j)) ^ b01 (o.c16_o_ne (k.brep i) (k.brep j))) k.bcombos),
  String.concat " " (List.map (fun (nm, _) -> nm ^ "=" ^ spec2 i j) k.bcombos)
let bstep_case ks n i kk =
  let k = bkind_of ks n in
  if i < k.blo || i > n || i + kk < k.blo || i + kk > n || ((not k.bidir) && kk < 0) then ("BADCASE", "BADCASE") else
  let o = k.bops true in
  let it = k.brep i in
  let pt r = let p = k.bunrep r in if p < k.blo || p > n then "?none" else string_of_int p ^ ":" ^ (if p >= 0 && p < n then ovz (o.c16_o_star r) else "-") in
  let sp p = string_of_int p ^ ":" ^ (if p >= 0 && p < n then string_of_int (1000 + p) else "-") in
  let l = [ ("steps", pt (c16_steps o it (z_of_int kk)), sp (i + kk));
            (if i + 1 <= n then ("postinc", pt it ^ "/" ^ pt (o.c16_o_inc it), sp i ^ "/" ^ sp (i + 1)) else ("postinc", "-", "-")) ] in
  let l = l @ (if k.bidir then [
            (if i + 1 <= n then ("incdec", pt (o.c16_o_dec (o.c16_o_inc it)), sp i) else ("incdec", "-", "-"));
            (if i - 1 >= k.blo then ("decinc", pt (o.c16_o_inc (o.c16_o_dec it)), sp i) else ("decinc", "-", "-"));
            (if i - 1 >= k.blo then ("postdec", pt it ^ "/" ^ pt (o.c16_o_dec it), sp i ^ "/" ^ sp (i - 1)) else ("postdec", "-", "-")) ] else []) in
  let l = l @ [ ("copy", pt (c16_copy it), sp i); ("assign", pt (c16_copy it), sp i); ("conv", pt (c16_copy it), sp i) ] in
  let l = l @ (if k.barrow then [ ("arrow", (if i >= 0 && i < n then ovz (o.c16_o_star it) else "-"), (if i >= 0 && i < n then string_of_int (1000 + i) else "-")) ] else []) in
  tokline l

let res_zs = function C16Ok l -> l | C16OutOfFuel -> failwith "OUTOFFUEL"
let trx_case variant xs =
  let n = List.length xs in
  let fuel = nat_of_int (n + 2) in
  let elems f = List.map (function Some v -> v | None -> failwith "deref") (res_zs (c16_tr_elems f xs fuel)) in
  let at f = List.init n (fun i -> match c16_tr_at f xs (z_of_int i) with Some v -> v | None -> failwith "at") in
  let zi = z_of_int in
  match variant with
  | "ref" ->
      tokline [ ("seen", zs (elems (fun x -> x)), zs xs); ("arrow", zs (elems Z.opp), zs (List.map Z.opp xs));
                ("under", zs (elems (fun x -> Z.add (Z.mul (zi 2) x) (zi 1))), zs (List.map (fun x -> Z.add (Z.mul (zi 2) x) (zi 1)) xs));
                ("idx", zs (at (fun x -> Z.add (Z.opp x) (zi 5))), zs (List.map (fun x -> Z.add (Z.opp x) (zi 5)) xs)) ]
  | "proxy" ->
      let fa x = Z.mul (zi 3) x and fb x = Z.sub x (zi 1) in
      tokline [ ("a", zs (elems fa), zs (List.map fa xs)); ("b", zs (elems fb), zs (List.map fb xs)); ("ca", zs (elems fa), zs (List.map fa xs));
                ("cst", zs (elems fb), zs (List.map fb xs)) ]
  | "iter" ->
      let pairs = List.map (function Some p -> p | None -> failwith "deref") (res_zs (c16_sparse_elems xs (fun p -> p) fuel)) in
      let m = zs (List.map (fun (v, i) -> Z.add (Z.mul (zi 10) v) i) pairs) in
      let s = zs (List.map (fun (v, i) -> Z.add (Z.mul (zi 10) v) i) (c16_spec_sparse xs)) in
      tokline [ ("elems", m, s); ("at", m, s); ("celems", m, s); ("size", string_of_z (c16_tr_size xs), string_of_int n); ("empty", b01 (c16_tr_empty xs), b01 (n = 0)) ]
  | "fwd" ->
      let f x = Z.add (Z.mul (zi 2) x) (zi 7) in
      tokline [ ("elems", zs (elems f), zs (List.map f xs)); ("post", zs (elems f), zs (List.map f xs)); ("empty", b01 (c16_tr_empty xs), b01 (n = 0));
                ("eqs", (let o = c16_tr_ops f xs in
                         let a = Z0 and b = Z0 in
                         let e = (if o.c16_o_eq a b then 1 else 0) + (if not (o.c16_o_ne a b) then 2 else 0) in
                         let e = if n > 0 then (let b = o.c16_o_inc b in e + (if o.c16_o_ne a b then 4 else 0) + (if not (o.c16_o_eq a b) then 8 else 0)) else e + 12 in
                         string_of_int e), "15") ]
  | "direct" ->
      let f x = Z.mul (zi 5) x in
      let o = c16_tr_ops f xs in
      tokline [ ("elems", zs (elems f), zs (List.map f xs)); ("viaassign", zs (at f), zs (List.map f xs));
                ("dist", string_of_z (o.c16_o_diff (zi n) Z0), string_of_int n);
                ("onlyit", (if n > 0 then ovz (c16_tr_at (fun x -> Z.mul (zi 4) x) xs Z0) else "-"), (if n > 0 then string_of_z (Z.mul (zi 4) (List.hd xs)) else "-")) ]
  | _ -> ("BADCASE", "BADCASE")

let sparsex_case xs =
  let n = List.length xs in
  let zi = z_of_int in
  let pr r = function Some (v, i) -> string_of_int r ^ "/" ^ string_of_z v ^ ":" ^ string_of_z i | None -> "-" in
  let rows f = List.concat (List.mapi (fun r x -> f r x) xs) in
  (* row r of a diagonal matrix: one stored entry whose iterator reports index r *)
  let diag_m = rows (fun r x -> List.map (pr r) (res_zs (c16_sparse_elems [x] (fun _ -> zi r) (nat_of_int 3)))) in
  let diag_s = List.mapi (fun r x -> string_of_int r ^ "/" ^ string_of_z x ^ ":" ^ string_of_int r) xs in
  let full_row x = List.init n (fun j -> Z.add (Z.mul (zi 10) x) (zi j)) in
  let full_m = rows (fun r x -> List.map (pr r) (res_zs (c16_sparse_elems (full_row x) (fun p -> p) (nat_of_int (n + 2))))) in
  let full_s = rows (fun r x -> List.map (fun (v, i) -> string_of_int r ^ "/" ^ string_of_z v ^ ":" ^ string_of_z i) (c16_spec_sparse (full_row x))) in
  let p2 = function Some (v, i) -> string_of_z v ^ ":" ^ string_of_z i | None -> "-" in
  let dr_m = List.map p2 (res_zs (c16_sparse_elems xs (fun p -> p) (nat_of_int (n + 2)))) in
  let dr_s = List.map (fun (v, i) -> string_of_z v ^ ":" ^ string_of_z i) (c16_spec_sparse xs) in
  let x10 = List.map (fun x -> Z.mul (zi 10) x) xs in
  let fr_m = List.map p2 (res_zs (c16_sparse_elems x10 (fun p -> p) (nat_of_int (n + 2)))) in
  let fr_s = List.map (fun (v, i) -> string_of_z v ^ ":" ^ string_of_z i) (c16_spec_sparse x10) in
  tokline [ ("diag", join diag_m, join diag_s); ("cdiag", join diag_m, join diag_s); ("full", join full_m, join full_s); ("cfull", join full_m, join full_s);
            ("drows", join dr_m, join dr_s); ("frows", join fr_m, join fr_s) ]

let rutil_case xs =
  let x = List.hd xs and r = List.tl xs in
  let bv = List.map (fun v -> v <> Z0) xs in
  let n = List.length xs in
  let bs = List.init 6 (fun i -> if i < n then List.nth bv i else List.hd bv) in
  let smax = List.fold_left (fun a b -> if Z.ltb a b then b else a) x r and smin = List.fold_left (fun a b -> if Z.ltb b a then b else a) x r in
  let ir = c16_spec_irange Z0 (z_of_int n) in
  tokline [ ("max", string_of_z (c16_max_value x r), string_of_z smax); ("min", string_of_z (c16_min_value x r), string_of_z smin);
            ("smax", string_of_z (c16_max_value x []), string_of_z x); ("smin", string_of_z (c16_min_value x []), string_of_z x);
            ("any", b01 (c16_any_true bv), b01 (List.exists (fun b -> b) bv)); ("all", b01 (c16_all_true bv), b01 (List.for_all (fun b -> b) bv));
            ("sany", b01 (c16_any_true [List.hd bv]), b01 (List.hd bv)); ("sall", b01 (c16_all_true [List.hd bv]), b01 (List.hd bv));
            ("bany", b01 (c16_any_true bs), b01 (List.exists (fun b -> b) bs)); ("ball", b01 (c16_all_true bs), b01 (List.for_all (fun b -> b) bs));
            ("irmax", string_of_z (c16_max_value (List.hd ir) (List.tl ir)), string_of_int (n - 1)); ("irmin", string_of_z (c16_min_value (List.hd ir) (List.tl ir)), "0") ]

let iseq_table = function
  | 0 -> [] | 1 -> [4] | 2 -> [1; 2; 3] | 3 -> [3; 1; 2] | 4 -> [5; 5; 0; 9; 2; 2; 7] | 5 -> [9; 8; 7; 6; 5; 4; 3; 2; 1; 0] | 6 -> [2; 0; 1; 0] | 7 -> [0; 1; 2; 3; 4; 5]
  | _ -> failwith "table"
let iseq_case id =
  let si = iseq_table id in
  let s = List.map z_of_int si in
  let n = List.length s in
  let zi = z_of_int in
  let odd x = Z.modulo x (zi 2) <> Z0 and lt3 x = Z.ltb x (zi 3) in
  let get = List.init n (fun i -> match c16_iseq_get s (zi i) with Some v -> v | None -> failwith "get") in
  let ten = List.init 10 zi in
  let mapped = List.map (fun x -> if Z.leb Z0 x && Z.ltb x (zi 10) then x else Z0) s in
  let ssort = List.sort compare si in
  let l = [ ("seq", zs s, is si); ("size", "S" ^ string_of_z (c16_hy_size C16Static s), "S" ^ string_of_int n); ("empty", b01 (s = []), b01 (n = 0)) ] in
  let l = l @ (if n > 0 then
    [ ("get", zs (get @ get), is (si @ si)); ("getdyn", zs get, is si); ("front", "S" ^ ovz (c16_iseq_get s Z0), "S" ^ string_of_int (List.hd si));
      ("back", "S" ^ ovz (c16_iseq_back s), "S" ^ string_of_int (List.nth si (n - 1))); ("head", "S" ^ ovz (c16_iseq_get s Z0), "S" ^ string_of_int (List.hd si));
      ("tail", zs (List.tl s), is (List.tl si));
      ("hyat", zs (List.init n (fun i -> match c16_hy_elementAt C16Static s (zi i) with Some v -> v | None -> failwith "at")), is si) ]
    else [ ("get", "-", "-"); ("getdyn", "-", "-"); ("front", "-", "-"); ("back", "-", "-"); ("head", "-", "-"); ("tail", "-", "-"); ("hyat", "-", "-") ]) in
  let l = l @ [ ("pushf", zs (zi 7 :: s), is (7 :: si)); ("pushb", zs (s @ [zi 7]), is (si @ [7])); ("pushf2", zs (zi 8 :: s), is (8 :: si)); ("pushb2", zs (s @ [zi 8]), is (si @ [8]));
                ("sorted", zs (c16_iseq_sorted Z.ltb s), is ssort); ("sortedgt", zs (c16_iseq_sorted Z.gtb s), is (List.rev ssort));
                ("has2", b01 (c16_iseq_contains s (zi 2)), b01 (List.mem 2 si)); ("has5", b01 (c16_iseq_contains s (zi 5)), b01 (List.mem 5 si));
                ("diff", zs (c16_iseq_difference_dec s [zi 2; zi 3; zi 9]), is (List.filter (fun x -> not (List.mem x [2; 3; 9])) si));
                ("cdiff", zs (c16_iseq_difference_dec ten mapped), is (List.filter (fun x -> not (List.mem x (List.map (fun y -> if y >= 0 && y < 10 then y else 0) si))) (List.init 10 (fun i -> i))));
                ("eqself", b01 (c16_iseq_equal s s), "1"); ("eq123", b01 (c16_iseq_equal s [zi 1; zi 2; zi 3]), b01 (si = [1; 2; 3]));
                ("odd", zs (c16_iseq_filter odd s), is (List.filter (fun x -> x mod 2 <> 0) si)); ("lt3", zs (c16_iseq_filter lt3 s), is (List.filter (fun x -> x < 3) si)) ] in
  tokline l

let arrow_case n i =
  let xs = contents n in
  let g = c16_legacy_ops (c16_generic_prims xs) true and sl = c16_legacy_ops (c16_sl_prims xs) true in
  let v o = ovz (o.c16_o_star (z_of_int i)) and sv = string_of_int (1000 + i) in
  tokline [ ("ra", v g, sv); ("cra", v g, sv); ("bi", v g, sv); ("fw", v sl, sv); ("cfw", v sl, sv); ("mfw", v sl, sv); ("wrote", "7", "7") ]
let prim_case kind n i j =
  let xs = contents n in
  let zi = z_of_int in
  let sb = b01 (i = j) and sd = string_of_int (j - i) in
  match kind with
  | "al" ->
      let st = [zi (-7); zi (-7)] @ xs in
      let pr = c16_alist_prims (zi 2) (zi n) st in
      let r p = c16_alist_rep (zi 2) (zi p) in
      let e = b01 (pr.c16_p_eq (r i) (r j)) and d = string_of_z (pr.c16_p_dist (r i) (r j)) in
      tokline [ ("meqk", e, sb); ("meqm", e, sb); ("keqk", e, sb); ("mdk", d, sd); ("mdm", d, sd); ("kdk", d, sd); ("pos", string_of_z (r i), string_of_int (2 + i)) ]
  | "sl" ->
      let e a b = b01 (c16_sl_member_equals (sl_obj a i) (sl_obj b j)) in
      tokline [ ("meqc", e 'm' 'c', sb); ("meqi", e 'm' 'i', sb); ("meqm", e 'm' 'm', sb); ("ieqc", e 'i' 'c', sb); ("ieqm", e 'i' 'm', sb); ("ceqc", e 'c' 'c', sb) ]
  | "dyn" | "gen" ->
      let pr = if kind = "dyn" then c16_dense_prims xs else c16_generic_prims xs in
      let r p = if kind = "dyn" then c16_dense_rep (zi p) else zi p in
      let e = b01 (pr.c16_p_eq (r i) (r j)) and d = string_of_z (pr.c16_p_dist (r i) (r j)) in
      tokline ([ ("meqk", e, sb); ("keqm", e, sb); ("mdk", d, sd); ("kdm", d, sd); ("mdm", d, sd) ]
               @ (if kind = "dyn" then [ ("index", string_of_z (c16_dense_unrep (r i)), string_of_int i) ] else []))
  | _ -> ("BADCASE", "BADCASE")

let hyx_case t =
  let nth = List.nth t in
  let zi = z_of_int in
  match nth 1 with
  | "range" ->
      let f = z_of_string (nth 3) and to_ = z_of_string (nth 4) in
      let xs = c16_spec_irange f to_ in
      let lg m tag = join (List.map (fun x -> tag ^ string_of_z x) (c16_hy_log m xs)) in
      let sp tag = join (List.map (fun x -> tag ^ string_of_z x) xs) in
      let n = List.length xs in
      tokline [ ("static", lg C16Static "S", sp "S"); ("dyn", lg C16Dynamic "D", sp "D"); ("mixed", lg C16Dynamic "D", sp "D");
                ("ssize", "S" ^ string_of_z (c16_hy_size C16Static xs), "S" ^ string_of_int n); ("dsize", "D" ^ string_of_z (c16_hy_size C16Dynamic xs), "D" ^ string_of_int n) ]
  | "vswitch" ->
      let v = z_of_string (nth 2) in
      let cases = [zi 1; zi 4; zi 2] in
      let br i = Z.add (zi 100) i and el = zi (-9) in
      let inseq = List.mem v cases and inr = c16_irange_contains (zi 2) (zi 7) v in
      let spv = string_of_z (br v) in
      tokline [ ("seqdyn", (if inseq then string_of_z (c16_hy_switch_dynamic cases v br el) else "-9"), (if inseq then spv else "-9"));
                ("seqstatic", (if inseq then string_of_z (c16_hy_switch_static cases v br el) else "-9"), (if inseq then spv else "-9"));
                ("range", (if inr then string_of_z (c16_hy_switch_range (zi 2) (zi 7) v br el) else "-9"), (if inr then spv else "-9"));
                ("srange", (if inr then string_of_z (c16_hy_switch_dynamic (c16_sirange_seq (ity_of "i32") (zi 2) (zi 7)) v br el) else "-9"), (if inr then spv else "-9")) ]
  | "fun3" ->
      let a = int_of_string (nth 2) and b = int_of_string (nth 3) and c = int_of_string (nth 4) in
      let mx = string_of_z (c16_hy_maxn (zi a) [zi b; zi c]) and mn = string_of_z (c16_hy_minn (zi a) [zi b; zi c]) in
      let smx = string_of_int (max a (max b c)) and smn = string_of_int (min a (min b c)) in
      tokline [ ("maxsss", "S" ^ mx, "S" ^ smx); ("maxsds", "D" ^ mx, "D" ^ smx); ("maxddd", "D" ^ mx, "D" ^ smx);
                ("minsss", "S" ^ mn, "S" ^ smn); ("minssd", "D" ^ mn, "D" ^ smn); ("minddd", "D" ^ mn, "D" ^ smn);
                ("max1", "S" ^ string_of_z (c16_hy_maxn (zi a) []), "S" ^ string_of_int a); ("hf", "S" ^ string_of_z (Z.mul (zi a) (zi c)), "S" ^ string_of_int (a * c)) ]
  | "enum" ->
      let e = res_list ovz (c16_irange_elems (ity_of "i32") true (nat_of_int 10) Z0 (zi 4)) in
      tokline [ ("elems", e, zs (c16_spec_irange Z0 (zi 4))); ("size", string_of_z (c16_irange_size (ity_of "i32") Z0 (zi 4)), "4") ]
  | "fvec" ->
      let xs = zlist (nth 2) in
      let acc7 a x = Z.add (Z.mul (zi 7) a) x in
      let w = List.mapi (fun i x -> Z.add x (zi (if i = 1 then 11 else 1))) xs in
      let at m i = ovz (c16_hy_elementAt m xs (zi i)) in
      tokline [ ("fvsize", "S" ^ string_of_z (c16_hy_size C16Static xs), "S3"); ("fv", zs (c16_hy_log C16Static xs), zs xs); ("ctuple", zs (c16_hy_log C16Static xs), zs xs);
                ("fvacc", string_of_z (c16_hy_accumulate C16Static acc7 xs (zi 1)), string_of_z (c16_spec_fold acc7 xs (zi 1)));
                ("fvat", at C16Dynamic 2, string_of_z (List.nth xs 2)); ("ctat", at C16Static 2, string_of_z (List.nth xs 2));
                ("pairsize", "S" ^ string_of_z (c16_hy_size C16Static [List.nth xs 0; List.nth xs 1]), "S2");
                ("wtuple", zs (c16_hy_log C16Static w), zs w); ("wvec", zs (c16_hy_log C16Dynamic w), zs w) ]
  | _ -> ("BADCASE", "BADCASE")

(* ------------------------------------------------------------------ dimension audit: aliasing, special members, histories, further roles *)
let self_case ks n i j =
  let base = List.hd (String.split_on_char ':' ks) in
  if base = "sl" then
    let e c = let x = sl_obj c i in b01 (c16_sl_facade_eq x x) ^ b01 (c16_sl_facade_ne x x) in
    tokline [ ("i.self", e 'i', "10"); ("c.self", e 'c', "10"); ("m.self", e 'm', "10");
              ("i.selfassign", b01 (c16_sl_facade_eq (c16_copy (sl_obj 'i' i)) (sl_obj 'i' i)), "1");
              ("m.moved", b01 (c16_sl_facade_eq (c16_copy (sl_obj 'm' i)) (sl_obj 'i' i)), "1") ]
  else
  let k = kind_of ks n in
  if i < k.lo || i > n || j < k.lo || j > n then ("BADCASE", "BADCASE") else
  let variants = if k.two then [ "m."; "c." ] else [ "m." ] in
  let o = k.ops true in
  let pt = ptok k o and sp = spec_ptok k in
  let a = k.rep i and b = k.rep j in
  let one pre =
    let (sx, sy) = c16_swap a b in
    [ (pre ^ "self", cmp6 o a a, "100101:0"); (pre ^ "selfassign", pt (c16_copy a), sp i);
      (pre ^ "addself", pt (o.c16_o_pluseq a (o.c16_o_diff a a)), sp i); (pre ^ "subself", pt (o.c16_o_minuseq a (o.c16_o_diff a a)), sp i);
      (pre ^ "moved", pt (c16_copy a), sp i); (pre ^ "moveassign", pt (c16_copy a), sp i); (pre ^ "swap", pt sx ^ "/" ^ pt sy, sp j ^ "/" ^ sp i) ] in
  tokline (List.concat (List.map one variants))

let walk_case ks n ops =
  let k = kind_of ks n in
  let o = k.ops true in
  let num s = z_of_int (int_of_string (String.sub s 1 (String.length s - 1))) in
  let step (x, d) op = match op.[0] with
    | '+' -> (o.c16_o_inc x, d + 1) | '-' -> (o.c16_o_dec x, d - 1)
    | 'a' -> (snd (c16_post_inc o x), d + 1) | 'b' -> (snd (c16_post_dec o x), d - 1)
    | 'c' | 'v' -> (c16_copy x, d)
    | 'p' -> (o.c16_o_pluseq x (num op), d + int_of_z (num op)) | 'm' -> (o.c16_o_minuseq x (num op), d - int_of_z (num op))
    | 'P' -> (o.c16_o_plus x (num op), d + int_of_z (num op)) | 'M' -> (o.c16_o_minus x (num op), d - int_of_z (num op))
    | _ -> failwith "op" in
  let (it, d) = List.fold_left step (k.rep 0, 0) ops in
  tokline [ ("pos", ptok k o it, spec_ptok k d); ("dist", string_of_z (o.c16_o_diff it (k.rep 0)), string_of_int d) ]

let hydyn_case xs =
  let acc7 a x = Z.add (Z.mul (z_of_int 7) a) x in
  tokline [ ("log", zs (c16_hy_log C16Dynamic xs), zs xs); ("acc", string_of_z (c16_hy_accumulate C16Dynamic acc7 xs (z_of_int 1)), string_of_z (c16_spec_fold acc7 xs (z_of_int 1)));
            ("size", "D" ^ string_of_z (c16_hy_size C16Dynamic xs), "D" ^ string_of_int (List.length xs)) ]

let trx2_case variant xs =
  let n = List.length xs in
  let zi = z_of_int in
  let fuel = nat_of_int (n + 3) in
  let elems f l = List.map (function Some v -> v | None -> failwith "deref") (res_zs (c16_tr_elems f l (nat_of_int (List.length l + 2)))) in
  let at f l = List.init (List.length l) (fun i -> match c16_tr_at f l (zi i) with Some v -> v | None -> failwith "at") in
  match variant with
  | "nested" ->
      let f x = Z.add (Z.mul (zi 2) x) (zi 1) and g y = Z.sub (Z.mul (zi 10) y) (zi 3) in
      let inner = c16_tr_ops f xs in
      let outer = c16_tr_over inner (function Some y -> Some (g y) | None -> None) in       (* a view whose underlying iterator is a view iterator *)
      let el = List.map (function Some v -> v | None -> failwith "deref") (res_zs (c16_range_for outer fuel (c16_iterrange Z0 (zi n)))) in
      let ats = List.init n (fun i -> match outer.c16_o_index Z0 (zi i) with Some v -> v | None -> failwith "at") in
      let sp = zs (List.map (fun x -> g (f x)) xs) in
      tokline [ ("elems", zs el, sp); ("at", zs ats, sp); ("rv", zs el, sp); ("size", string_of_z (c16_tr_size xs), string_of_int n);
                ("dist", string_of_z (outer.c16_o_diff (zi n) Z0), string_of_int n) ]
  | "fvbase" ->
      let f x = Z.mul (zi 5) x in
      let sir = c16_sirange_seq (ity_of "i32") (zi 2) (zi 6) in
      tokline [ ("elems", zs (elems f xs), zs (List.map f xs)); ("at1", ovz (c16_tr_at f xs (zi 1)), string_of_z (f (List.nth xs 1)));
                ("sir", zs (elems f sir), "10,15,20,25"); ("sirat", ovz (c16_tr_at f sir (zi 3)), "25") ]
  | "itrange" ->
      let f x = Z.sub x (zi 4) in
      let r = c16_iterrange Z0 (zi n) in
      let o = c16_tr_ops f xs in
      tokline [ ("elems", zs (List.map (function Some v -> v | None -> failwith "d") (res_zs (c16_range_for o fuel r))), zs (List.map f xs));
                ("empty", b01 (c16_tr_empty xs), b01 (n = 0)); ("copydist", string_of_z (o.c16_o_diff (snd (c16_copy r)) (fst (c16_copy r))), string_of_int n) ]
  | "copy" ->
      let f a b x = Z.add (Z.mul (zi a) x) (zi b) in
      let neg = f (-1) 0 in
      tokline [ ("copy", zs (elems (f 2 1) (c16_copy xs)), zs (List.map (f 2 1) xs)); ("source", zs (elems (f 0 7) [zi 9; zi 9]), "7,7");
                ("assigned", zs (elems neg (c16_copy xs)), zs (List.map neg xs)); ("moved", zs (elems neg xs), zs (List.map neg xs));
                ("selfassigned", zs (at neg xs), zs (List.map neg xs));
                ("ircopy", string_of_z (c16_irange_size (ity_of "i32") (zi 2) (zi (2 + n))) ^ ":" ^ b01 (c16_irange_empty (zi 2) (zi (2 + n))), string_of_int n ^ ":" ^ b01 (n = 0));
                ("irsource", string_of_z (c16_irange_size (ity_of "i32") Z0 Z0), "0") ]
  | "twice" ->
      let f x = Z.mul (zi 3) x in
      let xs2 = List.map (fun x -> Z.add x (zi 1)) xs @ [zi 100] in
      tokline [ ("first", zs (elems f xs), zs (List.map f xs)); ("second", zs (elems f xs), zs (List.map f xs)); ("after", zs (elems f xs2), zs (List.map f xs2));
                ("ncalls", string_of_int (List.length (elems f xs) * 2 + List.length (elems f xs2)), string_of_int (3 * n + 1));
                ("size", string_of_z (c16_tr_size xs2), string_of_int (n + 1)) ]
  | "cat" ->
      let f x = Z.mul (zi 4) x in
      let o = c16_tr_ops f xs in
      let rec back it acc = if n = 0 then acc else
        let it' = o.c16_o_dec it in
        let acc = acc @ [ (match o.c16_o_star it' with Some v -> v | None -> failwith "d") ] in
        if o.c16_o_eq it' Z0 then acc else back it' acc in
      tokline [ ("fwd", zs (elems f xs), zs (List.map f xs)); ("back", zs (back (zi n) []), zs (List.rev (List.map f xs))) ]
  | _ -> ("BADCASE", "BADCASE")

(* ------------------------------------------------------------------ dimension audit 2: pre-existing target state, asymmetric indices, full-span ranges *)
let asg_case ks n i j =
  let base = List.hd (String.split_on_char ':' ks) in
  let zi = z_of_int in
  let xs = contents n in
  match base with
  | "trf" ->
      if i < 0 || i > n || j < 0 || j > n then ("BADCASE", "BADCASE") else
      let o = c16_tr_ops (fun x -> x) xs in                     (* positions >= 100 are addresses inside the OTHER vector *)
      let fs fid v = (match v with Some x -> Some (if fid = zi 1 then Z.add (Z.mul (zi 2) x) (zi 1) else Z.add (Z.opp x) (zi 5)) | None -> None) in
      let r = c16_tri_assign_over (zi (100 + j), zi 2) (zi i, zi 1) in
      let obs r = let p = int_of_z (fst r) in string_of_int p ^ ":" ^ (if p >= 0 && p < n then let v = ovz (c16_tri_star o fs r) in v ^ "/" ^ v else "-") in
      let sp = string_of_int i ^ ":" ^ (if i < n then let v = string_of_int (2 * (1000 + i) + 1) in v ^ "/" ^ v else "-") in
      let eq = b01 (o.c16_o_eq (fst r) (zi i) && snd r = zi 1) ^ b01 (o.c16_o_ne (fst r) (zi i)) in
      tokline [ ("m.asg", obs r, sp); ("m.eq", eq, "10"); ("c.asg", obs r, sp); ("c.eq", eq, "10"); ("m.masg", obs r, sp) ]
  | "sl" ->
      if i < 0 || i > n || j < 0 || j > n then ("BADCASE", "BADCASE") else
      let o = c16_legacy_ops (c16_sl_prims xs) true in
      let pt x = let p = int_of_z (c16_sl_cur x) in string_of_int p ^ ":" ^ (if p >= 0 && p < n then ovz (o.c16_o_star (c16_sl_cur x)) else if p = n then "-" else "?") in
      let sp p = string_of_int p ^ ":" ^ (if p >= 0 && p < n then string_of_int (1000 + p) else "-") in
      let other c = (match c with 'i' -> C16SlIt (zi (100 + j)) | 'c' -> C16SlConst (zi (100 + j)) | _ -> C16SlMod (zi (99 + j), zi (100 + j))) in
      let a c = c16_assign_over (other c) (sl_obj c i) in
      tokline [ ("i.asg", pt (a 'i'), sp i); ("c.asg", pt (a 'c'), sp i);
                ("m.asg", pt (a 'm') ^ "/" ^ (if i < n then pt (c16_sl_inc (a 'm')) else "-"), sp i ^ "/" ^ (if i < n then sp (i + 1) else "-"));
                ("ci.conv", pt (c16_assign_over (other 'c') (c16_sl_to_const (sl_obj 'i' i))), sp i);
                ("cm.conv", pt (c16_assign_over (other 'c') (c16_sl_to_const (sl_obj 'm' i))), sp i);
                ("im.conv", pt (c16_assign_over (other 'i') (c16_sl_to_it (sl_obj 'm' i))), sp i) ]
  | "idx" ->
      if i < 0 || i > n || j < 0 || j > n then ("BADCASE", "BADCASE") else
      let o = c16_nf_ops (c16_vec_base xs) (fun p -> c16_at xs p) in
      let obs (it, ix) = let p = int_of_z it in string_of_int p ^ ":" ^ (if p >= 0 && p < n then ovz (o.c16_o_star it) else "-") ^ ":" ^ string_of_z ix in
      let sp p ix = string_of_int p ^ ":" ^ (if p >= 0 && p < n then string_of_int (1000 + p) else "-") ^ ":" ^ string_of_int ix in
      let tg = (zi (100 + j), zi (1000000 + j)) in
      let r = c16_idx_assign_over tg (zi i, zi (i - 5)) in
      let dk = kind_of "dyn" n in
      let dr = c16_idx_assign_over (dk.rep j, zi 77) (dk.rep i, zi (3 + i)) in
      tokline [ ("v.asg", obs r, sp i (i - 5)); ("v.next", (if i < n then obs (c16_idx_inc o r) else "-"), (if i < n then sp (i + 1) (i - 4) else "-"));
                ("v.masg", obs r, sp i (i - 5)); ("v.frombase", obs (c16_idx_assign_over tg (zi i, Z0)), sp i 0);
                ("d.asg", ptok dk (dk.ops true) (fst dr) ^ ":" ^ string_of_z (c16_idx_index dr), spec_ptok dk i ^ ":" ^ string_of_int (3 + i)) ]
  | _ ->
      let k = kind_of ks n in
      if i < k.lo || i > n || j < k.lo || j > n then ("BADCASE", "BADCASE") else
      let o = k.ops true in
      let pt = ptok k o and sp = spec_ptok k in
      let tagged = tagged_prims ks n in
      let assigned conv_ = (match tagged with
        | Some (_, trep) -> let r = (if conv_ then c16_tag_convert_assign_over (trep 2 j) (trep 1 i) else c16_tag_assign_over (trep 2 j) (trep 1 i)) in
                            if fst r = zi 1 then Some (snd r) else None
        | None -> Some (c16_assign_over (k.rep j) (k.rep i))) in
      let ptk = function Some r -> pt r | None -> "?none" in
      let rel = function
        | Some r -> (match tagged with Some (tp, trep) -> cmp6 (c16_legacy_ops tp true) (zi 1, r) (trep 1 i) | None -> cmp6 o r (k.rep i))
        | None -> "?" in
      let moved = function Some r -> Some (if i + 1 <= n then o.c16_o_dec (o.c16_o_inc r) else r) | None -> None in
      let one pre =
        let r = assigned false in
        [ (pre ^ "asg", ptk r, sp i); (pre ^ "rel", rel r, "100101:0"); (pre ^ "moved", ptk (moved r), sp i); (pre ^ "masg", ptk r, sp i);
          (pre ^ "chain", ptk (match r with Some x -> Some (c16_assign_over (k.rep j) x) | None -> None), sp i) ] in
      let variants = if k.two then [ "m."; "c." ] else [ "m." ] in
      let conv = if k.two && k.conv then
          let r = assigned true in
          [ ("conv", ptk r, sp i); ("convrel", (match r with Some x -> b01 (o.c16_o_eq x (k.rep i)) ^ b01 (o.c16_o_ne x (k.rep i)) | None -> "?"), "10") ]
        else [] in
      tokline (List.concat (List.map one variants) @ conv)

let asgv_case xs =
  let zi = z_of_int in
  let n = List.length xs in
  let f a b x = Z.add (Z.mul (zi a) x) (zi b) in
  let elems (l, (a, b)) = List.map (function Some v -> v | None -> failwith "deref") (res_zs (c16_tr_elems (f a b) l (nat_of_int (List.length l + 2)))) in
  let at (l, (a, b)) = List.init (List.length l) (fun i -> match c16_tr_at (f a b) l (zi i) with Some v -> v | None -> failwith "at") in
  let nines k = List.init k (fun _ -> zi 9) in
  let v1 = c16_range_assign_over (nines 9, (3, 3)) (xs, (-1, 0)) in
  let v2 = c16_range_assign_over (nines 3, (0, 7)) (xs, (2, 1)) in
  let ity = ity_of "i32" in
  let irl (a, b) = List.map (function Some v -> v | None -> failwith "d") (res_zs (c16_range_for (c16_ir_ops_src ity) (nat_of_int (int_of_z (Z.sub b a) + 2)) (c16_iterrange a b))) in
  let r1 = c16_range_assign_over (zi 100, zi 110) (zi 2, zi (2 + n)) in
  let r2 = c16_range_assign_over r1 (c16_sir_to_ir (zi 2) (zi 6)) in
  let r3 = c16_range_assign_over r2 (c16_sir_to_ir Z0 Z0) in
  let size (a, b) = c16_irange_size ity a b in
  let neg = List.map Z.opp xs in
  let ito = c16_nf_ops (c16_vec_base xs) (fun p -> c16_at xs p) in
  let itr = c16_range_assign_over (zi 101, zi 108) (Z0, zi n) in
  tokline [ ("copy", zs (elems v1), zs neg); ("copyat", zs (at v1), zs neg); ("copysize", string_of_z (c16_tr_size (fst v1)), string_of_int n);
            ("copyempty", b01 (c16_tr_empty (fst v1)), b01 (n = 0)); ("copyafter", zs (elems v1), zs neg);
            ("move", zs (elems v2), zs (List.map (f 2 1) xs)); ("movesize", string_of_z (c16_tr_size (fst v2)), string_of_int n);
            ("ir", zs (irl r1), zs (c16_spec_irange (zi 2) (zi (2 + n)))); ("irsize", string_of_z (size r1), string_of_int n);
            ("irempty", b01 (c16_irange_empty (fst r1) (snd r1)), b01 (n = 0));
            ("ircont", b01 (c16_irange_contains (fst r1) (snd r1) (zi 105)) ^ b01 (c16_irange_contains (fst r1) (snd r1) (zi 2)), "0" ^ b01 (n > 0));
            ("sir", zs (irl r2), "2,3,4,5"); ("sirsize", string_of_z (size r2), "4");
            ("sirempty", zs (irl r3) ^ ":" ^ b01 (c16_irange_empty (fst r3) (snd r3)), "-:1");
            ("itr", zs (List.map (function Some v -> v | None -> failwith "d") (res_zs (c16_range_for ito (nat_of_int (n + 2)) itr))), zs xs);
            ("itrdist", string_of_z (ito.c16_o_diff (snd itr) (fst itr)), string_of_int n) ]

let idxcmp_case base n i j a b =
  if i < 0 || j < 0 || i > n || j > n then ("BADCASE", "BADCASE") else
  let k = kind_of (match base with "ir" -> "ir:i32:1000" | "al" -> "al:2" | s -> s) n in
  let conv_all = base <> "al" in
  ignore conv_all;
  let o = k.ops true in
  let io = c16_idx_ops o in
  let x = (k.rep i, a) and y = (k.rep j, b) in
  let vp = bits [c16_idx_vs_base_eq o x (k.rep j); o.c16_o_ne (fst x) (k.rep j); o.c16_o_lt (fst x) (k.rep j); o.c16_o_le (fst x) (k.rep j);
                 o.c16_o_gt (fst x) (k.rep j); o.c16_o_ge (fst x) (k.rep j)] ^ ":" ^ string_of_z (c16_idx_vs_base_diff o x (k.rep j)) in
  let pv = cmp6 o (k.rep i) (fst y) in
  tokline [ ("vv", cmp6 io x y, spec6 i j); ("vp", vp, spec6 i j); ("pv", pv, spec6 i j);
            ("idx", string_of_z (c16_idx_index x) ^ "," ^ string_of_z (c16_idx_index y), string_of_z a ^ "," ^ string_of_z b) ]

let sparsei_case i0 e0 xs =
  let n = List.length xs in
  let vo = c16_nf_ops (c16_vec_base xs) (fun p -> c16_at xs p) in
  let pr = function (Some v, i) -> string_of_z v ^ ":" ^ string_of_z i | (None, _) -> "-" in
  let m = res_list pr (c16_range_for (c16_sparse_over (c16_idx_ops vo) c16_idx_index) (nat_of_int (n + 2)) (c16_iterrange (Z0, i0) (z_of_int n, e0))) in
  ("elems=" ^ m, "elems=" ^ join (List.mapi (fun k v -> string_of_z v ^ ":" ^ string_of_z (Z.add i0 (z_of_int k))) xs))

let irangex_case t =
  let ty = ity_of (List.nth t 1) in
  let from = z_of_string (List.nth t 2) and to_ = z_of_string (List.nth t 3) in
  let xs = if List.length t > 4 then zlist (List.nth t 4) else [] in
  let o = c16_ir_ops_src ty in
  let size = c16_irange_size ty from to_ in
  let empty = c16_irange_empty from to_ in
  let cont f = if xs = [] then "-" else String.concat "" (List.map (fun x -> b01 (f x)) xs) in
  let rec first it k acc = if k = 0 || not (o.c16_o_ne it to_) then List.rev acc else first (o.c16_o_inc it) (k - 1) (ovz (o.c16_o_star it) :: acc) in
  let span = Z.sub to_ from in
  let one = z_of_int 1 in
  let kmax sz = Z.min (Z.sub sz one) (c16_tmax ty) in
  let sfirst = List.filter_map (fun k -> if Z.ltb (z_of_int k) span then Some (string_of_z (Z.add from (z_of_int k))) else None) [0; 1; 2] in
  tokline [ ("size", string_of_z size, string_of_z span); ("empty", b01 empty, b01 (from = to_));
            ("cont", cont (c16_irange_contains from to_), cont (fun x -> Z.leb from x && Z.ltb x to_));
            ("first", join (first from 3 []), join sfirst);
            ("last", (if empty then "-" else ovz (o.c16_o_star (o.c16_o_dec to_))), (if from = to_ then "-" else string_of_z (Z.sub to_ one)));
            ("at0", (if empty then "-" else string_of_z (c16_irange_at ty from Z0)), (if from = to_ then "-" else string_of_z from));
            ("atmax", (if empty then "-" else string_of_z (c16_irange_at ty from (kmax size))), (if from = to_ then "-" else string_of_z (Z.add from (kmax span))));
            ("pairsize", string_of_z size, string_of_z span) ]

let () =
  let ic = open_in Sys.argv.(1) in
  (try while true do
    let line = input_line ic in
    let t = split_on ' ' (String.trim line) in
    let nth = List.nth t in
    let ios = int_of_string in
    let (m, s) =
      (try match t with
        | "cmp" :: ks :: _ ->
            let base = List.hd (String.split_on_char ':' ks) in
            if base = "sl" then sl_cmp (ios (nth 2)) (ios (nth 3)) (ios (nth 4))
            else if base = "trl" then trl_cmp (ios (nth 2)) (ios (nth 3)) (ios (nth 4))
            else do_cmp ks (ios (nth 2)) (ios (nth 3)) (ios (nth 4))
        | "cmpx" :: ks :: _ -> do_cmpx ks (ios (nth 2)) (ios (nth 3)) (ios (nth 4))
        | "step" :: ks :: _ ->
            let base = List.hd (String.split_on_char ':' ks) in
            if base = "sl" then sl_step (ios (nth 2)) (nth 3) (ios (nth 4)) (ios (nth 5))
            else if base = "trl" then trl_step (ios (nth 2)) (ios (nth 4)) (ios (nth 5))
            else do_step ks (ios (nth 2)) (nth 3) (ios (nth 4)) (ios (nth 5))
        | "cont" :: ks :: _ -> cont_case ks (ios (nth 2)) (ios (nth 3))
        | "bcmp" :: ks :: _ -> bcmp_case ks (ios (nth 2)) (ios (nth 3)) (ios (nth 4))
        | "bstep" :: ks :: _ -> bstep_case ks (ios (nth 2)) (ios (nth 4)) (ios (nth 5))
        | "ncmp" :: ks :: _ -> do_cmp ks (ios (nth 2)) (ios (nth 3)) (ios (nth 4))
        | "nstep" :: ks :: _ -> do_step ks (ios (nth 2)) (nth 3) (ios (nth 4)) (ios (nth 5))
        | "arrow" :: _ -> arrow_case (ios (nth 1)) (ios (nth 2))
        | "prim" :: kind :: _ -> prim_case kind (ios (nth 2)) (ios (nth 3)) (ios (nth 4))
        | "asg" :: ks :: _ -> asg_case ks (ios (nth 2)) (ios (nth 3)) (ios (nth 4))
        | "asgv" :: _ -> asgv_case (if List.length t > 1 then zlist (nth 1) else [])
        | "idxcmp" :: base :: _ -> idxcmp_case base (ios (nth 2)) (ios (nth 3)) (ios (nth 4)) (z_of_string (nth 5)) (z_of_string (nth 6))
        | "sparsei" :: _ -> sparsei_case (z_of_string (nth 1)) (z_of_string (nth 2)) (if List.length t > 3 then zlist (nth 3) else [])
        | "irangex" :: _ -> irangex_case t
        | "self" :: ks :: _ -> self_case ks (ios (nth 2)) (ios (nth 3)) (ios (nth 4))
        | "walk" :: ks :: _ -> walk_case ks (ios (nth 2)) (if List.length t > 3 && nth 3 <> "-" then split_on ',' (nth 3) else [])
        | "hyx" :: "dyn" :: _ -> hydyn_case (if List.length t > 3 then zlist (nth 3) else [])
        | "trx" :: ("nested" | "fvbase" | "itrange" | "copy" | "twice" | "cat" as v) :: _ -> trx2_case v (if List.length t > 2 then zlist (nth 2) else [])
        | "trx" :: v :: _ -> trx_case v (if List.length t > 2 then zlist (nth 2) else [])
        | "sparsex" :: _ -> sparsex_case (zlist (nth 2))
        | "rutil" :: _ -> rutil_case (zlist (nth 1))
        | "iseq" :: _ -> iseq_case (ios (nth 1))
        | "hyx" :: _ -> hyx_case t
        | "idxrun" :: base :: _ -> idx_case base (ios (nth 2)) (nth 3) (if List.length t > 4 && nth 4 <> "-" then split_on ',' (nth 4) else [])
        | "irange" :: _ -> irange_case false t
        | "sirange" :: _ -> irange_case true t
        | "tr" :: _ -> tr_case t
        | "sparse" :: _ -> sparse_case t
        | "hy" :: _ -> hy_case t
        | _ -> ("BADCASE", "BADCASE")
      with Failure e -> ("MODEL-ERROR " ^ e, "MODEL-ERROR") | Not_found -> ("MODEL-ERROR", "MODEL-ERROR") | Invalid_argument e -> ("MODEL-ERROR " ^ e, "MODEL-ERROR")) in
    print_string m; print_string " | "; print_endline s
  done with End_of_file -> ())
