(* C16 model driver: reads the case file, prints one line per case:
     <model observation> | <spec observation (positions / lists / folds)>
   Token format identical to harness/C16/impl.cc. *)
open C16_model

let rec pos_of_int i = if i = 1 then XH else if i land 1 = 0 then XO (pos_of_int (i lsr 1)) else XI (pos_of_int (i lsr 1))
let z_of_int i = if i = 0 then Z0 else if i > 0 then Zpos (pos_of_int i) else Zneg (pos_of_int (-i))
let rec int_of_pos = function XH -> 1 | XO p -> 2 * int_of_pos p | XI p -> 2 * int_of_pos p + 1
let int_of_z = function Z0 -> 0 | Zpos p -> int_of_pos p | Zneg p -> - (int_of_pos p)
let rec nat_of_int i = if i <= 0 then O else S (nat_of_int (i - 1))
let z10 = z_of_int 10
(* arbitrary-size decimal <-> Z *)
let z_of_string (s : string) : z =
  let neg = String.length s > 0 && s.[0] = '-' in
  let r = ref Z0 in
  String.iteri (fun i c -> if not (i = 0 && neg) then r := Z.add (Z.mul !r z10) (z_of_int (Char.code c - 48))) s;
  if neg then Z.opp !r else !r
let string_of_z (x : z) : string =
  let neg = Z.ltb x Z0 in
  let x = if neg then Z.opp x else x in
  let rec go x acc = if x = Z0 then acc else go (Z.div x z10) (string_of_int (int_of_z (Z.modulo x z10)) ^ acc) in
  let s = go x "" in
  (if neg then "-" else "") ^ (if s = "" then "0" else s)

let split_on c s = List.filter (fun x -> x <> "") (String.split_on_char c s)
let zlist s = if s = "-" || s = "" then [] else List.map z_of_string (split_on ',' s)
let join l = if l = [] then "-" else String.concat "," l
let b01 b = if b then "1" else "0"
let bits l = String.concat "" (List.map b01 l)
let ovz = function Some v -> string_of_z v | None -> "-"

let ity_of = function
  | "i8" -> { c16_bits = z_of_int 8; c16_signed = true } | "u8" -> { c16_bits = z_of_int 8; c16_signed = false }
  | "i16" -> { c16_bits = z_of_int 16; c16_signed = true } | "u16" -> { c16_bits = z_of_int 16; c16_signed = false }
  | "i32" -> { c16_bits = z_of_int 32; c16_signed = true } | "u32" -> { c16_bits = z_of_int 32; c16_signed = false }
  | "i64" -> { c16_bits = z_of_int 64; c16_signed = true } | "u64" -> { c16_bits = z_of_int 64; c16_signed = false }
  | _ -> failwith "type"

(* a random-access kind: operator table (depending on the convertibility flag), embedding of positions *)
type kind = { ops : bool -> (z, z option) c16_ops; rep : int -> z; unrep : z -> int; lo : int; n : int;
              two : bool; value : int -> string; always : bool; nplus : bool }

let contents n = List.init n (fun p -> z_of_int (1000 + p))
let kind_of (ks : string) (n : int) : kind =
  let kp = String.split_on_char ':' ks in
  let xs = contents n in
  let v1000 p = string_of_int (1000 + p) in
  match List.hd kp with
  | "dyn" | "fv" | "fmrow" ->
      { ops = (fun conv -> c16_legacy_ops (c16_dense_prims xs) conv); rep = (fun p -> c16_dense_rep (z_of_int p));
        unrep = (fun x -> int_of_z (c16_dense_unrep x)); lo = -1; n; two = true; value = v1000; always = false; nplus = false }
  | "gen" ->
      { ops = (fun conv -> c16_legacy_ops (c16_generic_prims xs) conv); rep = z_of_int; unrep = int_of_z; lo = -1; n; two = true;
        value = v1000; always = false; nplus = false }
  | "al" ->
      let s = int_of_string (List.nth kp 1) in
      let st = List.init s (fun _ -> z_of_int (-7)) @ xs in
      { ops = (fun conv -> c16_legacy_ops (c16_alist_prims (z_of_int s) (z_of_int n) st) conv);
        rep = (fun p -> c16_alist_rep (z_of_int s) (z_of_int p)); unrep = (fun x -> int_of_z (c16_alist_unrep (z_of_int s) x));
        lo = 0; n; two = true; value = v1000; always = false; nplus = false }
  | "tr" | "trl" ->
      let f x = Z.add (Z.mul (z_of_int 3) x) (z_of_int 1) in
      { ops = (fun _ -> c16_tr_ops f xs); rep = z_of_int; unrep = int_of_z; lo = 0; n; two = true;
        value = (fun p -> string_of_int (3 * (1000 + p) + 1)); always = false; nplus = true }
  | "ir" ->
      let t = ity_of (List.nth kp 1) in
      let from = z_of_string (List.nth kp 2) in
      { ops = (fun _ -> c16_ir_ops t true);          (* the model is the code after fixes/C16-1.patch *)
        rep = (fun p -> c16_ir_rep t from (z_of_int p)); unrep = (fun x -> int_of_z (c16_ir_unrep t from x));
        lo = (if Z.ltb (c16_tmin t) from then -1 else 0); n; two = false;
        value = (fun p -> string_of_z (Z.add from (z_of_int p))); always = true; nplus = true }
  | _ -> failwith "kind"

let ptok (k : kind) (o : (z, z option) c16_ops) (r : z) : string =
  let p = k.unrep r in
  if p < k.lo || p > k.n then "?none" else
  string_of_int p ^ ":" ^ (if k.always || (p >= 0 && p < k.n) then ovz (o.c16_o_star r) else "-")
let spec_ptok (k : kind) (p : int) : string =
  string_of_int p ^ ":" ^ (if k.always || (p >= 0 && p < k.n) then k.value p else "-")

let cmp6 (o : (z, 'v) c16_ops) a b =
  bits [o.c16_o_eq a b; o.c16_o_ne a b; o.c16_o_lt a b; o.c16_o_le a b; o.c16_o_gt a b; o.c16_o_ge a b] ^ ":" ^ string_of_z (o.c16_o_diff a b)
let spec6 i j = bits (c16_spec_cmp (z_of_int i) (z_of_int j)) ^ ":" ^ string_of_z (c16_spec_diff (z_of_int i) (z_of_int j))
let spec2 i j = String.sub (bits (c16_spec_cmp (z_of_int i) (z_of_int j))) 0 2

(* conv = is_convertible<T2,T1> for (lhs : T1, rhs : T2).  DenseIterator and GenericIterator DECLARE both converting
   constructors in both variants, so the trait is true for every mix and only the first branch of the facade operators
   is ever taken; the ArrayList iterators convert mutable -> const only, so (mutable lhs, const rhs) takes the second
   branch.  The new IteratorFacade has no such case split. *)
let combos_conv_all = [ ("mm", true); ("mc", true); ("cm", true); ("cc", true) ]
let combos = [ ("mm", true); ("mc", false); ("cm", true); ("cc", true) ]

let do_cmp ks n i j =
  let k = kind_of ks n in
  if i < k.lo || j < k.lo || i > n || j > n then ("BADCASE", "BADCASE") else
  let cs = if not k.two then [ ("mm", true) ] else if String.length ks >= 2 && String.sub ks 0 2 = "al" then combos else combos_conv_all in
  String.concat " " (List.map (fun (nm, conv) -> nm ^ "=" ^ cmp6 (k.ops conv) (k.rep i) (k.rep j)) cs),
  String.concat " " (List.map (fun (nm, _) -> nm ^ "=" ^ spec6 i j) cs)

let do_cmpx ks n i j =
  let k = kind_of ks n in
  String.concat " " (List.map (fun (nm, conv) ->
      let o = k.ops conv in
      let e = c16_same_container_eq false (o.c16_o_eq (k.rep i) (k.rep j)) in
      nm ^ "=" ^ b01 e ^ b01 (not e)) combos),
  String.concat " " (List.map (fun (nm, _) -> nm ^ "=01") combos)

let rec iter f n x = if n <= 0 then x else iter f (n - 1) (f x)

let do_step ks n var i kk =
  let k = kind_of ks n in
  if i < k.lo || i > n || i + kk < k.lo || i + kk > n then ("BADCASE", "BADCASE") else
  let o = k.ops true in
  let it = k.rep i and zk = z_of_int kk in
  let pt = ptok k o and sp = spec_ptok k in
  let m = Buffer.create 200 and s = Buffer.create 200 in
  let add name mv sv = (if Buffer.length m > 0 then (Buffer.add_char m ' '; Buffer.add_char s ' '));
    Buffer.add_string m (name ^ "=" ^ mv); Buffer.add_string s (name ^ "=" ^ sv) in
  add "plus" (pt (o.c16_o_plus it zk)) (sp (i + kk));
  add "pluseq" (pt (o.c16_o_pluseq it zk)) (sp (i + kk));
  add "minus" (pt (o.c16_o_minus it (Z.opp zk))) (sp (i + kk));
  add "minuseq" (pt (o.c16_o_minuseq it (Z.opp zk))) (sp (i + kk));
  add "idx" (if k.always || (i + kk >= 0 && i + kk < n) then ovz (o.c16_o_index it zk) else "-")
            (if k.always || (i + kk >= 0 && i + kk < n) then k.value (i + kk) else "-");
  add "steps" (pt (c16_steps o it zk)) (sp (i + kk));
  add "back" (string_of_z (o.c16_o_diff (o.c16_o_plus it zk) it)) (string_of_int kk);
  if i + 1 <= n then add "incdec" (pt (o.c16_o_dec (o.c16_o_inc it))) (sp i) else add "incdec" "-" "-";
  if i - 1 >= k.lo then add "decinc" (pt (o.c16_o_inc (o.c16_o_dec it))) (sp i) else add "decinc" "-" "-";
  if i + 1 <= n then add "postinc" (pt it ^ "/" ^ pt (o.c16_o_inc it)) (sp i ^ "/" ^ sp (i + 1)) else add "postinc" "-" "-";
  if i - 1 >= k.lo then add "postdec" (pt it ^ "/" ^ pt (o.c16_o_dec it)) (sp i ^ "/" ^ sp (i - 1)) else add "postdec" "-" "-";
  if k.nplus then add "nplus" (pt (o.c16_o_plus it zk)) (sp (i + kk));
  ignore var;
  (Buffer.contents m, Buffer.contents s)

(* SLList: forward iterators in three variants i(terator) c(onst) m(odify); conv = is_convertible<T2,T1> *)
let sl_conv = function
  | "ii" -> true | "ic" -> false | "im" -> true | "ci" -> true | "cc" -> true | "cm" -> true
  | "mi" -> false | "mc" -> false | "mm" -> true | _ -> true
let sl_combos = [ "ii"; "ic"; "im"; "ci"; "cc"; "cm"; "mi"; "mc"; "mm" ]
let sl_cmp n i j =
  if i < 0 || j < 0 || i > n || j > n then ("BADCASE", "BADCASE") else
  let pr = c16_sl_prims (contents n) in
  String.concat " " (List.map (fun nm -> let o = c16_legacy_ops pr (sl_conv nm) in
      nm ^ "=" ^ b01 (o.c16_o_eq (z_of_int i) (z_of_int j)) ^ b01 (o.c16_o_ne (z_of_int i) (z_of_int j))) sl_combos),
  String.concat " " (List.map (fun nm -> nm ^ "=" ^ spec2 i j) sl_combos)
let sl_step n var i kk =
  if i < 0 || kk < 0 || i + kk > n then ("BADCASE", "BADCASE") else
  let xs = contents n in
  let pr = c16_sl_prims xs in
  let o = c16_legacy_ops pr true in
  let pt p = let p = int_of_z p in string_of_int p ^ ":" ^ (if p >= 0 && p < n then string_of_int (1000 + p) else "-") in
  let sp p = string_of_int p ^ ":" ^ (if p >= 0 && p < n then string_of_int (1000 + p) else "-") in
  let step x = if var = "m" then snd (c16_slmod_inc (Z.sub x (z_of_int 1), x)) else o.c16_o_inc x in
  let it = z_of_int i in
  let m = "steps=" ^ pt (iter step kk it) ^ " postinc=" ^ (if i + 1 <= n then pt it ^ "/" ^ pt (step it) else "-") in
  let s = "steps=" ^ sp (i + kk) ^ " postinc=" ^ (if i + 1 <= n then sp i ^ "/" ^ sp (i + 1) else "-") in
  (m, s)

(* bidirectional new-facade iterator (TransformedRangeView over std::list) *)
let trl_cmp n i j =
  if i < 0 || j < 0 || i > n || j > n then ("BADCASE", "BADCASE") else
  let k = kind_of "trl" n in
  let o = k.ops true in
  String.concat " " (List.map (fun (nm, _) -> nm ^ "=" ^ b01 (o.c16_o_eq (k.rep i) (k.rep j)) ^ b01 (o.c16_o_ne (k.rep i) (k.rep j))) combos),
  String.concat " " (List.map (fun (nm, _) -> nm ^ "=" ^ spec2 i j) combos)
let trl_step n i kk =
  if i < 0 || i > n || i + kk < 0 || i + kk > n then ("BADCASE", "BADCASE") else
  let k = kind_of "trl" n in
  let o = k.ops true in
  let it = k.rep i in
  let pt = ptok k o and sp = spec_ptok k in
  let m = Buffer.create 100 and s = Buffer.create 100 in
  let add name mv sv = (if Buffer.length m > 0 then (Buffer.add_char m ' '; Buffer.add_char s ' '));
    Buffer.add_string m (name ^ "=" ^ mv); Buffer.add_string s (name ^ "=" ^ sv) in
  add "steps" (pt (c16_steps o it (z_of_int kk))) (sp (i + kk));
  if i + 1 <= n then add "incdec" (pt (o.c16_o_dec (o.c16_o_inc it))) (sp i) else add "incdec" "-" "-";
  if i - 1 >= 0 then add "decinc" (pt (o.c16_o_inc (o.c16_o_dec it))) (sp i) else add "decinc" "-" "-";
  if i + 1 <= n then add "postinc" (pt it ^ "/" ^ pt (o.c16_o_inc it)) (sp i ^ "/" ^ sp (i + 1)) else add "postinc" "-" "-";
  if i - 1 >= 0 then add "postdec" (pt it ^ "/" ^ pt (o.c16_o_dec it)) (sp i ^ "/" ^ sp (i - 1)) else add "postdec" "-" "-";
  (Buffer.contents m, Buffer.contents s)

(* IndexedIterator *)
let idx_case base n i0 ops =
  let xs = contents n in
  let parse o = match o.[0] with
    | '+' | 'a' -> C16Inc | '-' | 'b' -> C16Dec
    | 'p' -> C16PlusEq (z_of_int (int_of_string (String.sub o 1 (String.length o - 1))))
    | 'm' -> C16MinusEq (z_of_int (int_of_string (String.sub o 1 (String.length o - 1))))
    | _ -> failwith "op" in
  let l = List.map parse ops in
  let delta = List.fold_left (fun s o -> match o with C16Inc -> s + 1 | C16Dec -> s - 1
                                                     | C16PlusEq z -> s + int_of_z z | C16MinusEq z -> s - int_of_z z) 0 l in
  let o, rep, unrep = match base with
    | "vec" -> (c16_nf_ops (c16_vec_base xs) (fun p -> c16_at xs p), z_of_int, int_of_z)
    | _ -> (c16_legacy_ops (c16_dense_prims xs) true, (fun p -> c16_dense_rep (z_of_int p)), (fun x -> int_of_z (c16_dense_unrep x))) in
  let (it, ix) = c16_idx_run o (rep 0, z_of_string i0) l in
  let p = unrep it in
  let tok p v = string_of_int p ^ ":" ^ (if p >= 0 && p < n then v else "-") in
  ("pos=" ^ tok p (ovz (o.c16_o_star it)) ^ " index=" ^ string_of_z (c16_idx_index (it, ix)),
   "pos=" ^ tok delta (string_of_int (1000 + delta)) ^ " index=" ^ string_of_z (Z.add (z_of_string i0) (z_of_int delta)))

let res_list f = function C16Ok l -> join (List.map f l) | C16OutOfFuel -> "OUTOFFUEL"

let irange_case static t =
  (* irange <T> <from> <to> <xs>   |   sirange <id> <T> <from> <to> <xs> *)
  let off = if static then 1 else 0 in
  let ty = ity_of (List.nth t (1 + off)) in
  let from = z_of_string (List.nth t (2 + off)) and to_ = z_of_string (List.nth t (3 + off)) in
  let xs = if List.length t > 4 + off then zlist (List.nth t (4 + off)) else [] in
  let elems = res_list ovz (c16_irange_elems ty true (nat_of_int 45) from to_) in
  let size = c16_irange_size ty from to_ in
  let at = join (List.init (int_of_z size) (fun i -> string_of_z (c16_irange_at ty from (z_of_int i)))) in
  let cont = if xs = [] then "-" else String.concat "" (List.map (fun x -> b01 (c16_irange_contains from to_ x)) xs) in
  let sl = c16_spec_irange from to_ in
  let sel = join (List.map string_of_z sl) in
  let scont = if xs = [] then "-" else String.concat "" (List.map (fun x -> b01 (Z.leb from x && Z.ltb x to_)) xs) in
  if static then
    (Printf.sprintf "elems=%s size=%s empty=%s at=%s seq=%s dyn=%s cont=%s" elems (string_of_z size) (b01 (c16_irange_empty from to_)) at
       (join (List.map string_of_z (c16_sirange_seq ty from to_))) elems cont,
     Printf.sprintf "elems=%s size=%s empty=%s at=%s seq=%s dyn=%s cont=%s" sel (string_of_z (Z.sub to_ from)) (b01 (from = to_)) sel sel sel scont)
  else
    (Printf.sprintf "elems=%s size=%s empty=%s at=%s cont=%s" elems (string_of_z size) (b01 (c16_irange_empty from to_)) at cont,
     Printf.sprintf "elems=%s size=%s empty=%s at=%s cont=%s" sel (string_of_z (Z.sub to_ from)) (b01 (from = to_)) sel scont)

let tr_case t =
  let base = List.nth t 1 in
  let a = z_of_string (List.nth t 2) and b = z_of_string (List.nth t 3) in
  let xs0 = if List.length t > 4 then zlist (List.nth t 4) else [] in
  let xs = if base = "ir" then c16_spec_irange (List.nth xs0 0) (List.nth xs0 1) else xs0 in
  let f x = Z.add (Z.mul a x) b in
  let n = List.length xs in
  let elems = res_list ovz (c16_tr_elems f xs (nat_of_int (n + 2))) in
  let ra = base <> "list" in
  let at = if ra then join (List.init n (fun i -> ovz (c16_tr_at f xs (z_of_int i)))) else "-" in
  let sel = join (List.map (fun x -> string_of_z (f x)) xs) in
  (Printf.sprintf "elems=%s calls=%s size=%s empty=%s at=%s const=%s" elems (join (List.map string_of_z xs)) (string_of_z (c16_tr_size xs))
     (b01 (c16_tr_empty xs)) at elems,
   Printf.sprintf "elems=%s calls=%s size=%d empty=%s at=%s const=%s" sel (join (List.map string_of_z xs)) n (b01 (n = 0)) (if ra then sel else "-") sel)

let sparse_case t =
  let xs = if List.length t > 2 then zlist (List.nth t 2) else [] in
  let pr = function Some (v, i) -> string_of_z v ^ ":" ^ string_of_z i | None -> "-" in
  ("elems=" ^ res_list pr (c16_sparse_elems xs (fun p -> p) (nat_of_int (List.length xs + 2))),
   "elems=" ^ join (List.map (fun (v, i) -> string_of_z v ^ ":" ^ string_of_z i) (c16_spec_sparse xs)))

let switch_table = function
  | 0 -> [] | 1 -> [3] | 2 -> [1; 4; 2] | 3 -> [5; 5; 7] | 4 -> [0; 1; 2; 3] | 5 -> [9; 0; 8] | _ -> failwith "table"

let hy_case t =
  let op = List.nth t 1 in
  let tag m = match m with C16Static -> "S" | C16Dynamic -> "D" in
  let both names f = String.concat " " (List.map (fun (nm, m) -> nm ^ "=" ^ f m) names) in
  let cont4 = [ ("tuple", C16Static); ("array", C16Static); ("tv", C16Static); ("vec", C16Dynamic) ] in
  let acc7 a x = Z.add (Z.mul (z_of_int 7) a) x in
  match op with
  | "size" ->
      let n = int_of_string (List.nth t 2) in
      let xs = List.init n (fun _ -> Z0) in
      let names = [ ("tuple", C16Static); ("array", C16Static); ("tv", C16Static); ("iseq", C16Static); ("sir", C16Static); ("hir", C16Static);
                    ("vec", C16Dynamic); ("ir", C16Dynamic); ("dhir", C16Dynamic) ] in
      (both names (fun m -> tag m ^ string_of_z (c16_hy_size m xs)), both names (fun m -> tag m ^ string_of_int n))
  | "foreach" ->
      let xs = if List.length t > 2 then zlist (List.nth t 2) else [] in
      (both cont4 (fun m -> join (List.map string_of_z (c16_hy_log m xs))), both cont4 (fun _ -> join (List.map string_of_z xs)))
  | "acc" ->
      let v0 = z_of_string (List.nth t 2) in
      let xs = if List.length t > 3 then zlist (List.nth t 3) else [] in
      (both cont4 (fun m -> string_of_z (c16_hy_accumulate m acc7 xs v0)), both cont4 (fun _ -> string_of_z (c16_spec_fold acc7 xs v0)))
  | "at" ->
      let xs = if List.length t > 2 then zlist (List.nth t 2) else [] in
      let names = cont4 @ [ ("arraydyn", C16Dynamic) ] in
      (both names (fun m -> join (List.mapi (fun i _ -> ovz (c16_hy_elementAt m xs (z_of_int i))) xs)),
       both names (fun _ -> join (List.map string_of_z xs)))
  | "idx" ->
      let n = int_of_string (List.nth t 2) in
      let xs = c16_spec_irange Z0 (z_of_int n) in
      let names = [ ("iseq", C16Static); ("sir", C16Static); ("hir", C16Static); ("ir", C16Dynamic); ("dhir", C16Dynamic) ] in
      (both names (fun m -> join (List.map (fun x -> tag m ^ string_of_z x) (c16_hy_log m xs))),
       both names (fun m -> join (List.map (fun x -> tag m ^ string_of_z x) xs)))
  | "ifelse" ->
      let c = List.nth t 2 = "1" in
      let one = z_of_int 1 and two = z_of_int 2 in
      (Printf.sprintf "static=%s dyn=%s static1=%s dyn1=%s" (string_of_z (c16_hy_ifElse C16Static c one two)) (string_of_z (c16_hy_ifElse C16Dynamic c one two))
         (string_of_z (c16_hy_ifElse C16Static c one Z0)) (string_of_z (c16_hy_ifElse C16Dynamic c one Z0)),
       let r = if c then "1" else "2" and r1 = if c then "1" else "0" in Printf.sprintf "static=%s dyn=%s static1=%s dyn1=%s" r r r1 r1)
  | "switch" ->
      let cases = List.map z_of_int (switch_table (int_of_string (List.nth t 2))) in
      let v = z_of_string (List.nth t 3) in
      let br i = Z.add (z_of_int 100) i and el = z_of_int (-1) in
      let sp = string_of_z (c16_spec_switch cases v br el) in
      (Printf.sprintf "dyn=%s static=%s" (string_of_z (c16_hy_switch_dynamic cases v br el)) (string_of_z (c16_hy_switch_static cases v br el)),
       Printf.sprintf "dyn=%s static=%s" sp sp)
  | "switchr" ->
      let from = z_of_string (List.nth t 3) and to_ = z_of_string (List.nth t 4) and v = z_of_string (List.nth t 5) in
      let br i = Z.add (z_of_int 100) i and el = z_of_int (-1) in
      let i32 = ity_of "i32" in
      let sp = string_of_z (c16_spec_switch (c16_spec_irange from to_) v br el) in
      (Printf.sprintf "dyn=%s static=%s" (string_of_z (c16_hy_switch_range from to_ v br el))
         (string_of_z (c16_hy_switch_dynamic (c16_sirange_seq i32 from to_) v br el)),
       Printf.sprintf "dyn=%s static=%s" sp sp)
  | "fun" ->
      let o = (match List.nth t 2 with "plus" -> C16Plus | "minus" -> C16Minus | "max" -> C16Max | "min" -> C16Min | _ -> C16EqualTo) in
      let a = int_of_string (List.nth t 3) and b = int_of_string (List.nth t 4) in
      if List.nth t 2 = "minus" && a < b then ("BADCASE", "BADCASE") else
      let r m1 m2 = string_of_z (c16_hy_fun m1 m2 o (z_of_int a) (z_of_int b)) in
      let sv = (match List.nth t 2 with "plus" -> a + b | "minus" -> a - b | "max" -> max a b | "min" -> min a b | _ -> if a = b then 1 else 0) in
      (Printf.sprintf "ss=S%s sd=D%s ds=D%s dd=D%s" (r C16Static C16Static) (r C16Static C16Dynamic) (r C16Dynamic C16Static) (r C16Dynamic C16Dynamic),
       Printf.sprintf "ss=S%d sd=D%d ds=D%d dd=D%d" sv sv sv sv)
  | _ -> ("BADCASE", "BADCASE")

let () =
  let ic = open_in Sys.argv.(1) in
  (try while true do
    let line = input_line ic in
    let t = split_on ' ' (String.trim line) in
    let nth = List.nth t in
    let ios = int_of_string in
    let (m, s) =
      (try match t with
        | "cmp" :: ks :: _ ->
            let base = List.hd (String.split_on_char ':' ks) in
            if base = "sl" then sl_cmp (ios (nth 2)) (ios (nth 3)) (ios (nth 4))
            else if base = "trl" then trl_cmp (ios (nth 2)) (ios (nth 3)) (ios (nth 4))
            else do_cmp ks (ios (nth 2)) (ios (nth 3)) (ios (nth 4))
        | "cmpx" :: ks :: _ -> do_cmpx ks (ios (nth 2)) (ios (nth 3)) (ios (nth 4))
        | "step" :: ks :: _ ->
            let base = List.hd (String.split_on_char ':' ks) in
            if base = "sl" then sl_step (ios (nth 2)) (nth 3) (ios (nth 4)) (ios (nth 5))
            else if base = "trl" then trl_step (ios (nth 2)) (ios (nth 4)) (ios (nth 5))
            else do_step ks (ios (nth 2)) (nth 3) (ios (nth 4)) (ios (nth 5))
        | "idxrun" :: base :: _ -> idx_case base (ios (nth 2)) (nth 3) (if List.length t > 4 && nth 4 <> "-" then split_on ',' (nth 4) else [])
        | "irange" :: _ -> irange_case false t
        | "sirange" :: _ -> irange_case true t
        | "tr" :: _ -> tr_case t
        | "sparse" :: _ -> sparse_case t
        | "hy" :: _ -> hy_case t
        | _ -> ("BADCASE", "BADCASE")
      with Failure e -> ("MODEL-ERROR " ^ e, "MODEL-ERROR") | Not_found -> ("MODEL-ERROR", "MODEL-ERROR") | Invalid_argument e -> ("MODEL-ERROR " ^ e, "MODEL-ERROR")) in
    print_string m; print_string " | "; print_endline s
  done with End_of_file -> ())
