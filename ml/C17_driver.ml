(* C17 model driver.  usage: model cases.txt [impl.out]
   One line per case:   <model observation (code after fixes/C17-*.patch)> | <oracle verdict on the impl's line> | <observation of the as-found model>
   (third field "=" when both models agree; it lets the check recognise a tree on which a fix is not yet applied)
   The oracle (extracted C17_Spec functions) is applied to the implementation's own output
   (argv[2], one line per case); without argv[2] the verdict field is "-". *)
open C17_model

(* ---- numbers ---- *)
let rec pos_of_int i = if i = 1 then XH else if i land 1 = 0 then XO (pos_of_int (i lsr 1)) else XI (pos_of_int (i lsr 1))
let z_of_int i = if i = 0 then Z0 else if i > 0 then Zpos (pos_of_int i) else Zneg (pos_of_int (-i))
let rec nat_of_int i = if i = 0 then O else S (nat_of_int (i - 1))
let z_of_hex (s : string) : z =
  let r = ref Z0 in
  String.iter (fun c -> r := Z.add (Z.mul !r (z_of_int 16)) (z_of_int (int_of_string ("0x" ^ String.make 1 c)))) s; !r
let z_of_dec (s : string) : z =
  let neg = String.length s > 0 && s.[0] = '-' in
  let s' = if neg then String.sub s 1 (String.length s - 1) else s in
  let r = ref Z0 in
  String.iter (fun c -> r := Z.add (Z.mul !r (z_of_int 10)) (z_of_int (Char.code c - 48))) s';
  if neg then Z.opp !r else !r
let rec int_of_pos = function XH -> 1 | XO p -> 2 * int_of_pos p | XI p -> 2 * int_of_pos p + 1
let int_of_z = function Z0 -> 0 | Zpos p -> int_of_pos p | Zneg p -> - (int_of_pos p)
let rec dec_of_nonneg (x : z) : string =
  let chunk = z_of_int 1000000000 in
  match x with
  | Z0 -> "0"
  | _ -> let (q, r) = Z.div_eucl x chunk in
    if q = Z0 then string_of_int (int_of_z r) else dec_of_nonneg q ^ Printf.sprintf "%09d" (int_of_z r)
let dec_of_z (x : z) : string = match x with Zneg p -> "-" ^ dec_of_nonneg (Zpos p) | _ -> dec_of_nonneg x
let hex_of_z (w : int) (x : z) : string =   (* x >= 0, w hex digits *)
  let rec go x k acc = if k = 0 then acc else
    let (q, r) = Z.div_eucl x (z_of_int 16) in go q (k - 1) (Printf.sprintf "%x" (int_of_z r) ^ acc) in
  go x w ""

let ires_str = function C17_Val z -> dec_of_z z | C17_UB -> "UB" | C17_OutOfFuel -> "OUTOFFUEL"
let b01 b = if b then "1" else "0"

(* ---- formats ---- *)
let fmt_of = function
  | "32" -> (z_of_int 24, z_of_int 128, z_of_int 32, 8)
  | "64" -> (z_of_int 53, z_of_int 1024, z_of_int 64, 16)
  | "80" -> (z_of_int 64, z_of_int 16384, z_of_int 79, 20)      (* x87 extended; see zin / zout *)
  | s -> failwith ("format " ^ s)
let cstyle_of = function "w" -> C17_RelWeak | "s" -> C17_RelStrong | "a" -> C17_Absolute | s -> failwith ("cstyle " ^ s)
let rstyle_of = function "z" -> C17_TowardZero | "i" -> C17_TowardInf | "d" -> C17_Downward | "u" -> C17_Upward | s -> failwith ("rstyle " ^ s)
let ity_of = function
  | "i32" -> { c17_signed = true; c17_width = z_of_int 32 } | "u32" -> { c17_signed = false; c17_width = z_of_int 32 }
  | "i64" -> { c17_signed = true; c17_width = z_of_int 64 } | "u64" -> { c17_signed = false; c17_width = z_of_int 64 }
  | "i8" -> { c17_signed = true; c17_width = z_of_int 8 } | "u8" -> { c17_signed = false; c17_width = z_of_int 8 }
  | "i16" -> { c17_signed = true; c17_width = z_of_int 16 } | "u16" -> { c17_signed = false; c17_width = z_of_int 16 }
  | s -> failwith ("ity " ^ s)

(* long double travels as 20 hex digits = 16 bit sign/exponent + 64 bit significand with explicit integer bit; the model's
   interchange layout (c17_of_bits, width 79) has the integer bit implicit: drop / re-insert it *)
let p2 k = Z.pow (z_of_int 2) (z_of_int k)
let zin hw x = if hw <> 20 then x else
  let (se, mant) = Z.div_eucl x (p2 64) in let (_, frac) = Z.div_eucl mant (p2 63) in Z.add (Z.mul se (p2 63)) frac
let zout hw z = if hw <> 20 then z else
  let (se, frac) = Z.div_eucl z (p2 63) in let (_, ex) = Z.div_eucl se (p2 15) in
  Z.add (Z.add (Z.mul se (p2 64)) (if ex = Z0 then Z0 else p2 63)) frac
let is_fin p e v = is_finite p e v
let verdict_str = function None -> "N" | Some true -> "T" | Some false -> "F"

let bits6 s = String.length s = 6 && String.for_all (fun c -> c = '0' || c = '1') s

let () =
  let ic = open_in Sys.argv.(1) in
  let impl = if Array.length Sys.argv > 2 then Some (open_in Sys.argv.(2)) else None in
  (try while true do
    let line = input_line ic in
    let il = match impl with None -> None | Some c -> (try Some (String.trim (input_line c)) with End_of_file -> None) in
    let t = Array.of_list (List.filter (fun s -> s <> "") (String.split_on_char ' ' (String.trim line))) in
    let asfound = ref "=" in
    let model, oracle =
      try
      match t.(0) with
      | "cmp" ->
        let (p, e, w, hw) = fmt_of t.(1) in let s = cstyle_of t.(2) in
        let fb x = c17_of_bits p e w (zin hw (z_of_hex x)) in
        let eps = fb t.(3) and a = fb t.(4) and b = fb t.(5) in
        let six = String.concat "" (List.map b01
          [c17_eq p e s eps a b; c17_ne p e s eps a b; c17_gt p e s eps a b; c17_lt p e s eps a b; c17_ge p e s eps a b; c17_le p e s eps a b]) in
        let orc = (match il with
          | None -> "-"
          | Some l ->
            let parts = String.split_on_char ' ' l in
            if List.length parts <> 3 || not (List.for_all bits6 parts) then "BAD unparsable impl line (or FloatCmpOps::epsilon() does not return what epsilon(e) stored)"
            else begin
              let fin = is_fin p e a && is_fin p e b && is_fin p e eps in
              let nanop = is_nan p e a || is_nan p e b in
              let chk which (o : string) =
                let g i = o.[i] = '1' in
                if nanop then (if o = "010000" then "ok" else "BAD " ^ which ^ ": a NaN operand must compare not-equal and neither less nor greater")
                else if not fin then "ok"
                else if not (c17_cmp_laws (c17_flt p e a b) (c17_fgt p e a b) (g 0) (g 1) (g 2) (g 3) (g 4) (g 5))
                then "BAD " ^ which ^ " results violate the comparison algebra (ne=!eq, gt/lt/ge/le derived, exactly one of lt/eq/gt)"
                else begin
                  let v = c17_eq_verdict p e s (c17_to_dy p e eps) (c17_to_dy p e a) (c17_to_dy p e b) in
                  match v with
                  | Some x when x <> g 0 -> "BAD " ^ which ^ " eq=" ^ b01 (g 0) ^ " contradicts the documented definition evaluated exactly (" ^ verdict_str v ^ ")"
                  | _ -> "ok" end in
              let r1 = chk "function" (List.nth parts 0) in
              if r1 <> "ok" then r1 else
              let r2 = chk "FloatCmpOps" (List.nth parts 1) in
              if r2 <> "ok" then r2 else chk "FloatCmpOps(default-constructed, epsilon set)" (List.nth parts 2)
            end) in
        let sixo o = String.concat "" (List.map b01
          [c17_ops_eq p e o a b; c17_ops_ne p e o a b; c17_ops_gt p e o a b; c17_ops_lt p e o a b; c17_ops_ge p e o a b; c17_ops_le p e o a b]) in
        let o2 = { c17_ops_cstyle = s; c17_ops_rstyle = c17_default_rstyle; c17_ops_eps = eps } in      (* FloatCmpOps<T,cs> ops(eps) *)
        let o3 = c17_ops_set_eps p e (c17_ops_default p e s C17_Upward) eps in                          (* FloatCmpOps<T,cs,upward> ops2; ops2.epsilon(eps) *)
        six ^ " " ^ sixo o2 ^ " " ^ sixo o3, orc
      | "vcmp" ->
        let (p, e, w, hw) = fmt_of t.(1) in let s = cstyle_of t.(2) in
        let fb x = c17_of_bits p e w (zin hw (z_of_hex x)) in
        let eps = fb t.(3) in
        let n = int_of_string t.(4) in
        let a = List.init n (fun i -> fb t.(5 + i)) in
        let m = int_of_string t.(5 + n) in
        let b = List.init m (fun i -> fb t.(6 + n + i)) in
        let r = c17_veq p e s eps a b in
        let sv = b01 r ^ b01 (not r) in
        let v6 = String.concat "" (List.map b01 [r; c17_vne p e s eps a b; c17_vgt p e s eps a b; c17_vlt p e s eps a b; c17_vge p e s eps a b; c17_vle p e s eps a b]) in
        (* epsilon defaulted (DefaultEpsilon of the vector type = that of the scalar), style defaulted, FieldVector<T,2> defaulted epsilon *)
        let en st ep = let q = c17_veq p e st ep a b in b01 q ^ b01 (not q) in
        let d1 = en s (c17_default_eps p e s) and d2 = en c17_default_cstyle (c17_default_eps p e c17_default_cstyle) in
        let mo = v6 ^ " " ^ (if n = m && n = 1 then v6 else if n = m && n >= 2 && n <= 3 then sv else "--") ^ " " ^ v6
                 ^ " " ^ d1 ^ " " ^ d2 ^ " " ^ (if n = m && n = 2 then d1 else "--") in
        let orc = (match il with
          | None -> "-"
          | Some l ->
            let allfin = List.for_all (is_fin p e) (eps :: a @ b) in
            let hasnan = n = m && List.exists2 (fun x y -> is_nan p e x || is_nan p e y) a b in
            if hasnan && is_fin p e eps then
              (* abs(x - y) <= ... is false when x or y is NaN: a vector with such a component is not tolerantly equal to anything *)
              (if List.for_all (fun pt -> pt = "--" || (String.length pt >= 2 && String.sub pt 0 2 = "01")) (String.split_on_char ' ' l) then "ok"
               else "BAD a vector with a NaN component compares tolerantly equal")
            else if not allfin then "ok" else
            let q = c17_to_dy p e in
            let expect st epd =
              let comp = if n <> m then [Some false] else List.map2 (fun x y -> c17_eq_verdict p e st epd (q x) (q y)) a b in
              if List.mem (Some false) comp then Some false
              else if List.for_all (fun v -> v = Some true) comp then Some true else None in
            let parts = String.split_on_char ' ' l in
            if List.length parts <> 6 then "BAD unparsable impl line" else
            let pre want pt = pt = "--" || (String.length pt >= 2 && String.sub pt 0 2 = want) in
            let okp st epd pts = (match expect st epd with None -> true | Some x -> List.for_all (pre (b01 x ^ b01 (not x))) pts) in
            let laws pt = String.length pt <> 6 ||
              (let g i = pt.[i] = '1' in g 1 = not (g 0) && g 4 = (g 2 || g 0) && g 5 = (g 3 || g 0) && not (g 2 && g 3) && (not (g 0) || (not (g 2) && not (g 3)))) in
            let nth = List.nth parts in
            (* documented defaults: 8 * machine epsilon for the relative styles (default style relativeWeak) *)
            let dw = c17_dy_pow2 (Z.sub (z_of_int 4) p) in
            let ddef st = (match st with C17_Absolute -> c17_to_dy p e (c17_default_eps p e C17_Absolute) | _ -> dw) in
            if not (okp s (q eps) [nth 0; nth 1; nth 2]) then "BAD vector eq is not the conjunction of the component comparisons"
            else if not (okp s (ddef s) [nth 3; nth 5]) then "BAD vector eq with defaulted epsilon is not the conjunction of the component comparisons at the documented default"
            else if not (okp C17_RelWeak dw [nth 4]) then "BAD vector eq with defaulted style and epsilon is not the conjunction at the documented defaults"
            else if not (List.for_all laws parts) then "BAD vector gt/lt/ge/le violate ne=!eq, ge=gt||eq, le=lt||eq, at most one of lt/eq/gt"
            else if not (List.for_all (fun pt -> pt = "--" || String.length pt < 2 || pt.[1] <> pt.[0]) parts) then "BAD vector ne is not !eq"
            else "ok") in
        mo, orc
      | "round" | "trunc" ->
        let isround = t.(0) = "round" in
        let (p, e, w, hw) = fmt_of t.(1) in let ty = ity_of t.(2) in let s = cstyle_of t.(3) in let r = rstyle_of t.(4) in
        let fb x = c17_of_bits p e w (zin hw (z_of_hex x)) in
        let eps = fb t.(5) and v = fb t.(6) in
        let res = if isround then c17_round_fix p e r ty s eps v else c17_trunc_fix p e r ty s eps v in
        let oo = { c17_ops_cstyle = s; c17_ops_rstyle = r; c17_ops_eps = eps } in                       (* FloatCmpOps<T,cs,rs> ops(eps) *)
        let reso = if isround then c17_ops_round p e oo ty v else c17_ops_trunc p e oo ty v in
        let res0 = if isround then c17_round_fix p e r ty s eps v else c17_trunc_v2 p e r ty s eps v in   (* the repository before fixes/C17-4.patch *)
        asfound := (if res0 = res then "=" else ires_str res0);
        let orc = (match il with
          | None -> "-"
          | Some l ->
            if res = C17_UB || not (is_fin p e v && is_fin p e eps) then "ok(undefined)"
            else (match (try Some (z_of_dec l) with _ -> None) with
              | None -> "BAD unparsable impl line"
              | Some z ->
                let dv = c17_to_dy p e v in
                let ideal = if isround then c17_spec_round_ideal r dv else c17_spec_trunc_ideal r dv in
                if not (c17_inrange ty ideal) then "ok(unrepresentable)" else
                let okf = if isround then c17_spec_round_ok else c17_spec_trunc_ok in
                let fl = c17_dy_floor dv in
                let other = if ideal = fl then Z.add fl (z_of_int 1) else fl in
                if okf p e r s (c17_to_dy p e eps) dv z then "ok"
                (* trunc returned the real truncated value although the neighbouring integer is "near": fine when that
                   neighbour is not a value of the integer type *)
                else if (not isround) && z = ideal && not (c17_inrange ty other) then "ok(unrepresentable)"
                (* round returned one of the two neighbours although the documented choice (near-tie direction) is the other
                   one: fine when that other one is not a value of the integer type *)
                else if isround && (z = fl || z = Z.add fl (z_of_int 1))
                        && not (c17_inrange ty (if z = fl then Z.add fl (z_of_int 1) else fl)) then "ok(unrepresentable)"
                else "BAD result " ^ l ^ " is not the documented " ^ t.(0) ^ " of the argument (exact: " ^ dec_of_z ideal ^ ")")) in
        (if reso = res then ires_str res else ires_str res ^ " ops:" ^ ires_str reso), orc
      | "ipow" | "fact" | "binom" | "isign" ->
        let ty = ity_of t.(1) in
        let a = z_of_dec t.(2) in
        let b = if Array.length t > 3 then z_of_dec t.(3) else Z0 in
        let res, exact = (match t.(0) with
          | "ipow" -> c17_ipower ty a b, (if Z.ltb b Z0 then None else Some (c17_spec_power a b))
          | "fact" -> c17_factorial ty a, Some (c17_spec_factorial a)
          | "binom" ->
            let r1 = c17_binomial_fix ty a b in
            (if Z.ltb (Z.abs a) (z_of_int 100000) then
               let r0 = c17_binomial ty a b in asfound := (if r0 = r1 then "=" else ires_str r0));
            r1, Some (c17_spec_binomial_fast a b)
          | _ -> C17_Val (c17_isign_src a), Some (c17_spec_sign a)) in      (* literals re-read from math.hh; = c17_isign by C17_source_literals *)
        let orc = (match il, exact with
          | None, _ -> "-"
          | _, None -> "ok(no-spec)"
          | Some l, Some x ->
            let obs = (try C17_Val (z_of_dec l) with _ -> C17_UB) in
            if c17_spec_int_ok ty x obs then (if c17_inrange ty x then "ok" else "ok(unrepresentable)")
            else "BAD exact value " ^ dec_of_z x ^ " is representable but the result is " ^ l) in
        ires_str res, orc
      | "fpow" ->
        let (p, e, w, hw) = fmt_of t.(1) in
        let m = c17_of_bits p e w (zin hw (z_of_hex t.(2))) in
        let pw = z_of_dec t.(3) in
        let r = c17_fpower p e m pw in
        let orc = (match il with
          | None -> "-"
          | Some l ->
            if not (is_fin p e m) then "ok" else
            let ri = c17_of_bits p e w (zin hw (z_of_hex l)) in
            let xm = c17_to_dy p e m in
            let n = abs (int_of_z pw) in
            if n > 40 then "ok(no-verdict)" else
            let one = c17_dy_of_Z (z_of_int 1) in
            let rec dpow acc k = if k = 0 then acc else dpow (c17_dy_mul acc xm) (k - 1) in
            let ex = dpow one n in
            if c17_dy_eqb ex (c17_dy_of_Z Z0) then "ok(zero)" else
            let big = c17_dy_pow2 (Z.sub e (z_of_int 3)) and small = c17_dy_pow2 (Z.sub (z_of_int 6) e) in
            if c17_dy_leb big (c17_dy_abs ex) || c17_dy_leb (c17_dy_abs ex) small then "ok(range)"
            else if not (is_fin p e ri) then "BAD power result not finite although the exact value is in range"
            else
              let rd = c17_to_dy p e ri in
              let relb = c17_dy_mul (c17_dy_of_Z (z_of_int (n + 2))) (c17_dy_pow2 (Z.sub (z_of_int 1) p)) in
              (* p >= 0: |r - ex| <= relb*|ex| ;  p < 0: |r*ex - 1| <= relb *)
              let okv = if Z.ltb pw Z0 then c17_dy_leb (c17_dy_abs (c17_dy_sub (c17_dy_mul rd ex) one)) relb
                        else c17_dy_leb (c17_dy_abs (c17_dy_sub rd ex)) (c17_dy_mul relb (c17_dy_abs ex)) in
              if okv then "ok" else "BAD power result differs from the exact power by more than (|p|+2) ulp/2") in
        hex_of_z hw (zout hw (c17_to_bits p e w r)), orc
      | "defeps" ->
        let (p, e, w, hw) = fmt_of t.(1) in
        let h st = hex_of_z hw (zout hw (c17_to_bits p e w (c17_default_eps p e st))) in
        let four st = String.concat " " [h st; h st; h st; h st] in
        let mo = four C17_RelWeak ^ " " ^ four C17_RelStrong ^ " " ^ four C17_Absolute ^ " " ^ h c17_default_cstyle in
        mo, (match il with None -> "-" | Some l ->
          (* judged against the DOCUMENTED defaults (c17_spec_default_eps_ok), not against the literals re-read from the source *)
          let toks = Array.of_list (String.split_on_char ' ' l) in
          if Array.length toks <> 13 then "BAD unparsable impl line" else
          let style_of i = if i < 4 then C17_RelWeak else if i < 8 then C17_RelStrong else if i < 12 then C17_Absolute else C17_RelWeak in
          let okv i = (try let v = c17_of_bits p e w (zin hw (z_of_hex toks.(i))) in
                           is_fin p e v && c17_spec_default_eps_ok p (style_of i) (c17_to_dy p e v) with _ -> false) in
          if List.for_all okv [0;1;2;3;4;5;6;7;8;9;10;11;12] then "ok"
          else "BAD DefaultEpsilon is not the documented 8 * machine epsilon (relative styles, default style relativeWeak) / 1e-6 (absolute) for every value type")
      | "cmpd" ->
        let (p, e, w, hw) = fmt_of t.(1) in
        let fb x = c17_of_bits p e w (zin hw (z_of_hex x)) in
        let eps = fb t.(2) and a = fb t.(3) and b = fb t.(4) in
        let dc = c17_default_cstyle in
        let groups = [ (C17_RelWeak, c17_default_eps p e C17_RelWeak); (C17_RelStrong, c17_default_eps p e C17_RelStrong);
                       (C17_Absolute, c17_default_eps p e C17_Absolute); (dc, c17_default_eps p e dc); (dc, eps); (dc, c17_default_eps p e dc) ] in
        let six (s, ep) = String.concat "" (List.map b01
          [c17_eq p e s ep a b; c17_ne p e s ep a b; c17_gt p e s ep a b; c17_lt p e s ep a b; c17_ge p e s ep a b; c17_le p e s ep a b]) in
        let mo = String.concat " " (List.map six groups) in
        let orc = (match il with
          | None -> "-"
          | Some l ->
            let parts = String.split_on_char ' ' l in
            if List.length parts <> 6 || not (List.for_all bits6 parts) then "BAD unparsable impl line" else
            if not (is_fin p e a && is_fin p e b && is_fin p e eps) then "ok" else
            let chk (s, ep) (o : string) =
              let g i = o.[i] = '1' in
              if not (c17_cmp_laws (c17_flt p e a b) (c17_fgt p e a b) (g 0) (g 1) (g 2) (g 3) (g 4) (g 5)) then false
              else (match c17_eq_verdict p e s ep (c17_to_dy p e a) (c17_to_dy p e b) with Some x -> x = g 0 | None -> true) in
            (* the oracle uses the DOCUMENTED defaults: 8 * 2^(1-prec) for the relative styles, default style relativeWeak *)
            let dw = c17_dy_pow2 (Z.sub (z_of_int 4) p) in
            let ogroups = [ (C17_RelWeak, dw); (C17_RelStrong, dw); (C17_Absolute, c17_to_dy p e (c17_default_eps p e C17_Absolute));
                            (C17_RelWeak, dw); (C17_RelWeak, c17_to_dy p e eps); (C17_RelWeak, dw) ] in
            if List.for_all2 chk ogroups parts then "ok"
            else "BAD a comparison with defaulted epsilon / compare style violates the algebra or the documented definition with the documented default") in
        mo, orc
      | "rto" ->
        let isround = t.(1) = "round" in
        let (p, e, w, hw) = fmt_of t.(2) in let ty = ity_of t.(3) in
        let s = (if t.(4) = "c" then cstyle_of t.(5) else c17_default_cstyle) in
        let r = (if t.(4) = "r" then rstyle_of t.(5) else c17_default_rstyle) in
        let fb x = c17_of_bits p e w (zin hw (z_of_hex x)) in
        let eps = (if t.(6) = "-" then c17_default_eps p e s else fb t.(6)) and v = fb t.(7) in
        let res = if isround then c17_round_fix p e r ty s eps v else c17_trunc_fix p e r ty s eps v in
        (if not isround then let r0 = c17_trunc_v2 p e r ty s eps v in asfound := (if r0 = res then "=" else ires_str r0));
        let orc = (match il with
          | None -> "-"
          | Some l ->
            if res = C17_UB || not (is_fin p e v && is_fin p e eps) then "ok(undefined)"
            else (match (try Some (z_of_dec l) with _ -> None) with
              | None -> "BAD unparsable impl line (or FloatCmpOps<T>() disagrees with the free function)"
              | Some z ->
                let dv = c17_to_dy p e v in
                let ideal = if isround then c17_spec_round_ideal r dv else c17_spec_trunc_ideal r dv in
                if not (c17_inrange ty ideal) then "ok(unrepresentable)" else
                let okf = if isround then c17_spec_round_ok else c17_spec_trunc_ok in
                let fl = c17_dy_floor dv in
                let other = if ideal = fl then Z.add fl (z_of_int 1) else fl in
                if okf p e r s (c17_to_dy p e eps) dv z then "ok"
                else if (not isround) && z = ideal && not (c17_inrange ty other) then "ok(unrepresentable)"
                else if isround && (z = fl || z = Z.add fl (z_of_int 1))
                        && not (c17_inrange ty (if z = fl then Z.add fl (z_of_int 1) else fl)) then "ok(unrepresentable)"
                else "BAD result " ^ l ^ " is not the documented " ^ t.(1) ^ " with the defaulted styles / epsilon (exact: " ^ dec_of_z ideal ^ ")")) in
        ires_str res, orc
      | "icfact" ->
        let ty = ity_of "i32" in let n = z_of_dec t.(1) in
        let r = ires_str (c17_factorial ty n) in
        let spec = dec_of_z (c17_spec_factorial n) in
        r ^ " " ^ r, (match il with None -> "-" | Some l -> if l = spec ^ " " ^ spec then "ok" else "BAD factorial(integral_constant) / Factorial<n>::factorial is not n!")
      | "icbinom" ->
        let ty = ity_of "i32" in let n = z_of_dec t.(1) and k = z_of_dec t.(2) in
        let r = if n = k then dec_of_z (c17_binomial_nn_src n)            (* the (n,n) overload: literals re-read from math.hh *)
                else ires_str (c17_binomial_fix ty n k) in
        let spec = dec_of_z (c17_spec_binomial_fast n k) in
        r, (match il with None -> "-" | Some l -> if l = spec then "ok" else "BAD binomial(integral_constant, integral_constant) is not C(n,k)")
      | "icls" ->
        "0010", (match il with None -> "-" | Some l -> if l = "0010" then "ok" else "BAD an integer is finite, not NaN, not infinite, and ordered")
      | "ipowx" ->
        let ty = ity_of t.(1) in let a = z_of_dec t.(3) and b = z_of_dec t.(4) in
        let res = c17_ipower ty a b in
        let orc = (match il with
          | None -> "-"
          | Some l -> if Z.ltb b Z0 then "ok(no-spec)" else
            let x = c17_spec_power a b in
            let obs = (try C17_Val (z_of_dec l) with _ -> C17_UB) in
            if c17_spec_int_ok ty x obs then "ok" else "BAD exact value " ^ dec_of_z x ^ " is representable but the result is " ^ l) in
        ires_str res, orc
      | "fsign" ->
        let (p, e, w, hw) = fmt_of t.(1) in
        let v = c17_of_bits p e w (zin hw (z_of_hex t.(2))) in
        let r = dec_of_z (c17_fsign p e v) in
        r, (match il with None -> "-" | Some l -> if l = r then "ok" else "BAD sign must be -1 for negative values and 1 otherwise")
      | "cls" ->
        let (p, e, w, hw) = fmt_of t.(1) in
        let kind = t.(2) in let n = int_of_string t.(3) in
        let n = if kind = "vc" then 2 * n else n in
        let vs = List.init n (fun i -> c17_of_bits p e w (zin hw (z_of_hex t.(4 + i)))) in
        let r = (match kind with
          | "s" -> let v = List.hd vs in [c17_isnan p e v; c17_isinf p e v; c17_isfinite p e v]
          | "c" -> let re = List.nth vs 0 and im = List.nth vs 1 in [c17_cisnan p e re im; c17_cisinf p e re im; c17_cisfinite p e re im]
          | "vc" -> let rec pairs = function x :: y :: tl -> (x, y) :: pairs tl | _ -> [] in
                    let pv = pairs vs in [c17_vcisnan p e pv; c17_vcisinf p e pv; c17_vcisfinite p e pv]
          | _ -> [c17_visnan p e vs; c17_visinf p e vs; c17_visfinite p e vs]) in
        let spec = String.concat "" (List.map b01 [c17_spec_any_nan p e vs; c17_spec_any_inf p e vs; c17_spec_all_finite p e vs]) in
        String.concat "" (List.map b01 r),
        (match il with None -> "-" | Some l -> if l = spec then "ok" else "BAD classifiers must be any-NaN / any-inf / all-finite over the components: expected " ^ spec)
      | "unord" ->
        let (p, e, w, hw) = fmt_of t.(1) in
        let a = c17_of_bits p e w (zin hw (z_of_hex t.(2))) and b = c17_of_bits p e w (zin hw (z_of_hex t.(3))) in
        let r = b01 (c17_isunordered p e a b) in
        let r1 = b01 (c17_visunordered1 p e a b) in
        let spec = b01 (is_nan p e a || is_nan p e b) in
        r ^ " " ^ r1, (match il with None -> "-" | Some l -> if l = spec ^ " " ^ spec then "ok" else "BAD isUnordered must hold exactly when an argument is NaN")
      | _ -> "UNKNOWN-OP", "-"
      with Failure m -> "MODEL-ERROR " ^ m, "-" | Invalid_argument m -> "MODEL-ERROR " ^ m, "-" | Not_found -> "MODEL-ERROR notfound", "-"
    in
    print_string model; print_string " | "; print_string oracle; print_string " | "; print_endline !asfound
  done with End_of_file -> ())
