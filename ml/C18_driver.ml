(* C18 model driver.  usage: model [impl.out] cases.txt
   One line per case:   <model observation> | <oracle verdict on the impl's line>
   (verdict "-" when no impl output file is given).  Strings are written ":<escaped>", escaping
   every byte outside '!'..'~' and '%' itself as %XX.  The verdict is the SPEC (C18_Spec.v) applied
   to what the impl printed: "ok" or a short reason. *)
open C18_model

let explode s = List.init (String.length s) (String.get s)
let implode l = String.of_seq (List.to_seq l)
let esc l =
  let b = Buffer.create 16 in
  Buffer.add_char b ':';
  List.iter (fun c -> if c > ' ' && c <= '~' && c <> '%' then Buffer.add_char b c
                      else Buffer.add_string b (Printf.sprintf "%%%02X" (Char.code c))) l;
  Buffer.contents b
(* token ":...." -> char list; None if not a string token *)
let unesc (t : string) : char list option =
  let n = String.length t in
  if n = 0 || t.[0] <> ':' then None else begin
    let b = Buffer.create n in
    let i = ref 1 in
    (try
      while !i < n do
        if t.[!i] = '%' then begin
          Buffer.add_char b (Char.chr (int_of_string ("0x" ^ String.sub t (!i + 1) 2))); i := !i + 3 end
        else begin Buffer.add_char b t.[!i]; incr i end
      done; Some (explode (Buffer.contents b))
    with _ -> None) end
let get t = match unesc t with Some l -> l | None -> failwith ("bad string token " ^ t)
let b01 b = if b then "1" else "0"
let res_str = function C18_Ok s -> esc s | C18_NotImplemented -> "EXC NotImplemented" | C18_OutOfFuel -> "OUTOFFUEL"

let expect_str (impl : string) (spec : char list) (why : string) =
  if impl = esc spec then "ok" else Printf.sprintf "%s:expected=%s" why (esc spec)
let expect_bool impl spec why = if impl = b01 spec then "ok" else Printf.sprintf "%s:expected=%s" why (b01 spec)

let () =
  let have_impl = Array.length Sys.argv > 2 in
  let ic = open_in Sys.argv.(Array.length Sys.argv - 1) in
  let ii = if have_impl then Some (open_in Sys.argv.(1)) else None in
  (try while true do
    let line = input_line ic in
    let impl = match ii with Some c -> (try Some (input_line c) with End_of_file -> Some "MISSING") | None -> None in
    let t = Array.of_list (String.split_on_char ' ' (String.trim line)) in
    let model, verdict =
      try
        (* ops ending in '@' (one object in two roles) or '=...' (result assigned back to an argument) have the
           value semantics of the plain op: the model has no notion of object identity *)
        let base_op =
          let o = t.(0) in
          match String.index_opt o '=' with
          | Some k -> String.sub o 0 k
          | None -> if String.length o > 0 && o.[String.length o - 1] = '@' then String.sub o 0 (String.length o - 1) else o in
        match base_op with
        | "process" ->
            let p = get t.(1) in
            let m = (match c18_processPath p with
                     | C18_Ok r -> esc r ^ " " ^ res_str (c18_processPath r)
                     | r -> res_str r) in
            m, (fun (i : string) ->
                  match String.split_on_char ' ' i with
                  | [o; o2] -> (match unesc o with
                      | None -> "unparseable"
                      | Some r ->
                          if not (c18_nf r) then "not-normal-form"
                          else if not (c18_eq_loc (c18_denote r) (c18_denote p)) then "denotes-other-location"
                          else if o2 <> o then "not-idempotent"
                          else if r <> c18_canon p then "not-the-canonical-form"
                          else "ok")
                  | _ -> "unparseable")
        | "pretty" ->
            let p = get t.(1) and d = t.(2) = "1" in
            res_str (c18_prettyPath p d), (fun i ->
              let v = expect_str i (c18_spec_pretty p d) "pretty-table" in
              if v <> "ok" then v else
              match unesc i with
              | Some o when c18_eq_loc (c18_denote o) (c18_denote p) -> "ok"
              | _ -> "pretty-denotes-other-location")
        | "prettyauto" ->
            let p = get t.(1) in
            res_str (c18_prettyPath1 p), (fun i -> expect_str i (c18_spec_pretty p (c18_spec_isdir p)) "pretty-table")
        | "isdir" ->
            let p = get t.(1) in
            b01 (c18_pathIndicatesDirectory p), (fun i -> expect_bool i (c18_spec_isdir p) "isdir-table")
        | "concat" ->
            let a = get t.(1) and b = get t.(2) in
            esc (c18_concatPaths a b), (fun i ->
              match unesc i with
              | None -> "unparseable"
              | Some o ->
                  if o <> c18_spec_concat a b then Printf.sprintf "concat-table:expected=%s" (esc (c18_spec_concat a b))
                  else if (not (c18_is_abs b)) && not (c18_eq_loc (c18_denote o) (c18_denote_then a b)) then "concat-denotes-other-location"
                  else "ok")
        | "relpath" ->
            let a = get t.(1) and b = get t.(2) in
            (* observation from the message-carrying model; the plain model must agree with it (C18_relative_errors) *)
            let m2 = (match c18_relativePath_msg a b with
                      | C18_Result r -> esc r
                      | C18_Throw m -> "EXC NotImplemented " ^ esc (c18_cstr m)   (* what() is a C string: cut at an embedded NUL *)
                      | C18_Fuel -> "OUTOFFUEL") in
            let m1 = res_str (c18_relativePath a b) in
            let agree = (match c18_relativePath_msg a b with
                         | C18_Result _ -> m1 = m2 | C18_Throw _ -> m1 = "EXC NotImplemented" | C18_Fuel -> false) in
            (if agree then m2 else "MODEL-ERROR relativePath/relativePath_msg disagree"), (fun i ->
              let defined = c18_spec_rel_defined a b in
              let pre = "EXC NotImplemented " in
              let lp = String.length pre in
              if String.length i >= lp && String.sub i 0 lp = pre then begin
                if defined then "refused-but-relative-path-exists"
                else if String.sub i lp (String.length i - lp) <> esc (c18_cstr (c18_spec_rel_message a b)) then "wrong-error-message"
                else "ok" end
              else match unesc i with
                | None -> "unparseable"
                | Some r ->
                    if not defined then "reported-but-none-exists"
                    else if not (c18_spec_rel_accepts a b r) then "base+result-denotes-other-location"
                    else if not (c18_nf r) then "result-not-normal-form"
                    else if c18_processPath (c18_spec_concat a r) <> c18_processPath b then "roundtrip-not-same-sanitised-string"
                    else "ok")
        | "prefix" | "prefix_vec" | "prefix_list" | "prefix_sv" | "prefix_deque" | "prefix_vsc" | "prefix_pmr" ->
            (* any character container, prefix handed over as const char* (cut at the first NUL) *)
            let s = get t.(1) and x = get t.(2) in
            b01 (c18_hasPrefix_c s x), (fun i -> expect_bool i (c18_spec_prefix (c18_cstr x) s) "prefix")
        | "suffix" | "suffix_vec" | "suffix_list" | "suffix_sv" | "suffix_deque" | "suffix_vsc" | "suffix_pmr" ->
            let s = get t.(1) and x = get t.(2) in
            b01 (c18_hasSuffix_c s x), (fun i -> expect_bool i (c18_spec_suffix (c18_cstr x) s) "suffix")
        | "format" ->
            (* format <fmt> <kind> <arg> <F> : F is the full expansion (what snprintf would produce),
               or "!" when snprintf reports a conversion error (negative return value) *)
            if t.(4) = "!" then
              (match c18_formatString_err None with None -> "EXC Exception " ^ esc c18_msg_format | Some r -> esc r),
              (fun i -> if i = "EXC Exception " ^ esc c18_msg_format then "ok"
                        else if String.length i >= 13 && String.sub i 0 13 = "EXC Exception" then "wrong-error-message"
                        else "format-error-not-reported")
            else
            let f = get t.(4) in
            (match c18_formatString_err (Some f) with None -> "EXC Exception " ^ esc c18_msg_format | Some r -> esc r),
            (fun i -> expect_str i (c18_cstr f) "format")
        | _ -> "UNKNOWN-OP", (fun _ -> "unknown-op")
      with e -> "MODEL-ERROR " ^ Printexc.to_string e, (fun _ -> "model-error") in
    print_string model; print_string " | ";
    print_endline (match impl with Some i -> verdict i | None -> "-")
  done with End_of_file -> ())
