(* C19 model driver.  usage: model cases.txt [impl.out]
   One line per case:   <model observation> ## <spec part>
   Guard case   G P kind act colors mode outs scripts
       model observation: per world rank  <exit>:<ncoll>  joined by '|'   (exit = N | G<pc>e<nerr> | U<pc> | STUCK)
       spec part (mode S): what C19_Spec.c19_spec_exit prescribes, same format;  (mode U): '-'
   Future case  F P fam op pay wrap salt late dep order
       model observation: per world rank the SET of traces the model can produce (one per completion point,
                          restricted to the points possible for a rank that depends on the late rank), ' / ' separated
       spec part: without impl.out: the delivered data per rank; with impl.out: verdict of C19_Spec.c19_spec_accept
                  on the impl's own trace:  ACCEPT  or  REJECT r<rank> <fresh|after-get> item<i> <item> *)
open C19_model

let rec nat_of_int i = if i <= 0 then O else S (nat_of_int (i - 1))
let rec int_of_nat = function O -> 0 | S n -> 1 + int_of_nat n
let rec pos_of_int i = if i = 1 then XH else if i land 1 = 0 then XO (pos_of_int (i lsr 1)) else XI (pos_of_int (i lsr 1))
let n_of_int i = if i = 0 then N0 else Npos (pos_of_int i)
let rec int_of_pos = function XH -> 1 | XO p -> 2 * int_of_pos p | XI p -> 2 * int_of_pos p + 1
let int_of_n = function N0 -> 0 | Npos p -> int_of_pos p

let chars s = List.init (String.length s) (String.get s)
let split c s = String.split_on_char c s

(* ---------------------------------------------------------------- guard *)
let gop_of_char = function 's' -> C19_FinOk | 'f' -> C19_FinFail | 't' -> C19_Throw | 'r' -> C19_React | c -> failwith (Printf.sprintf "gop %c" c)
let char_of_gop = function C19_FinOk -> 's' | C19_FinFail -> 'f' | C19_Throw -> 't' | C19_React -> 'r'
let outcome_of_char = function 'o' -> C19_Ok | 't' -> C19_Throws | 'f' -> C19_ReportsFailure | c -> failwith (Printf.sprintf "outcome %c" c)
let script_of_string s = if s = "-" then [] else List.map gop_of_char (chars s)
(* what the impl driver really calls: finalize() without argument at even positions, finalize(true) at odd ones *)
let script_as_called s = List.mapi (fun i o -> if o = C19_FinOk && i mod 2 = 0 then C19_FinDefault else o) (script_of_string s)
let ctor_arg kind act = if kind <> "" && Char.lowercase_ascii kind.[0] = kind.[0] then None else Some act
(* gr = rank of the process inside the guard's communicator (printed in the MPIGuardError message) *)
let exit_str gr = function
  | C19_Normal -> "N"
  | C19_GuardError (pc, ne) -> Printf.sprintf "G%de%dr%d" (int_of_nat pc) (int_of_nat ne) gr
  | C19_UserExc pc -> Printf.sprintf "U%d" (int_of_nat pc)
let obs_str gr (e, n) = (match e with Some e -> exit_str gr e | None -> "STUCK") ^ ":" ^ string_of_int (int_of_nat n)

(* world ranks grouped by colour: the extracted C19_Model.c19_groups *)
let groups_of colors p =
  List.map (List.map int_of_nat) (c19_groups (List.map (fun c -> nat_of_int (Char.code c)) (Array.to_list colors)))

let guard_case t =
  let p = int_of_string t.(1) and act = t.(3) = "1" and colors = Array.of_list (chars t.(4)) and mode = t.(5) in
  let outs = Array.of_list (split ',' t.(6)) and scripts = Array.of_list (split ',' t.(7)) in
  let res = Array.make p "?" and spec = Array.make p "-" in
  List.iter (fun members ->
    let sc = List.map (fun r -> script_of_string scripts.(r)) members in
    let r =
      if mode = "S" then begin
        let os = List.map (fun r -> List.map outcome_of_char (chars outs.(r))) members in
        (* the script handed to the impl must be the one the Coq definition derives from the outcomes *)
        List.iter2 (fun o s -> if c19_script act o <> s then failwith "SCRIPT-MISMATCH") os sc;
        let nsec = (match os with o :: _ -> List.length o | [] -> 0) in
        List.iteri (fun i r -> let (e, n) = c19_spec_exit act (nat_of_int nsec) os (nat_of_int i) in
                     spec.(r) <- obs_str (if t.(2) = "R" then List.length members - 1 - i else i) (Some e, n)) members;
        c19_sections_run act os
      end else c19_guard_scope_ctor (ctor_arg t.(2) act) (List.map (fun r -> script_as_called scripts.(r)) members) in
    (match r with
     | C19_Finished l | C19_Deadlock l -> List.iteri (fun i (r, o) -> res.(r) <- obs_str (if t.(2) = "R" then List.length members - 1 - i else i) o) (List.combine members l)
     | C19_OutOfFuel -> List.iter (fun r -> res.(r) <- "OUTOFFUEL") members)) (groups_of colors p);
  String.concat "|" (Array.to_list res) ^ " ## " ^ (if mode = "S" then String.concat "|" (Array.to_list spec) else "-")

(* Q P kind acts colors outs scripts : several scopes one after the other (';' separated per rank) *)
let seq_case t =
  let p = int_of_string t.(1) and acts = chars t.(3) and colors = Array.of_list (chars t.(4)) in
  let outs = Array.of_list (List.map (split ';') (split ',' t.(5))) and scripts = Array.of_list (List.map (split ';') (split ',' t.(6))) in
  let nsc = List.length acts in
  let res = Array.make_matrix p nsc "?" and spec = Array.make_matrix p nsc "?" in
  List.iter (fun members ->
    let scopes = List.mapi (fun j a -> (a = '1', List.map (fun r -> List.map outcome_of_char (chars (List.nth outs.(r) j))) members)) acts in
    List.iteri (fun j (a, os) -> List.iter2 (fun r o ->
        if c19_script a o <> script_of_string (List.nth scripts.(r) j) then failwith "SCRIPT-MISMATCH") members os) scopes;
    let rs = c19_scopes_run scopes in
    List.iteri (fun j g ->
      let (a, os) = List.nth scopes j in
      let nsec = (match os with o :: _ -> List.length o | [] -> 0) in
      (match g with
       | C19_Finished l | C19_Deadlock l -> List.iteri (fun i (r, o) -> res.(r).(j) <- obs_str (if t.(2) = "R" then List.length members - 1 - i else i) o) (List.combine members l)
       | C19_OutOfFuel -> List.iter (fun r -> res.(r).(j) <- "OUTOFFUEL") members);
      List.iteri (fun i r -> let (e, n) = c19_spec_exit a (nat_of_int nsec) os (nat_of_int i) in spec.(r).(j) <- obs_str (if t.(2) = "R" then List.length members - 1 - i else i) (Some e, n)) members) rs)
    (groups_of colors p);
  let row a = String.concat ";" (Array.to_list a) in
  String.concat "|" (List.map row (Array.to_list res)) ^ " ## " ^ String.concat "|" (List.map row (Array.to_list spec))

(* N P colors S outs scripts : inner guards on the split communicators inside an outer guard on the world communicator *)
let nested_case t =
  let p = int_of_string t.(1) and colors = Array.of_list (chars t.(2)) and nsec = int_of_string t.(3) in
  let outs = Array.of_list (split ',' t.(4)) and scripts = Array.of_list (split ',' t.(5)) in
  let gs = groups_of colors p in
  let groups = List.map (List.map (fun r -> List.map outcome_of_char (chars outs.(r)))) gs in
  List.iter2 (fun members os -> List.iter2 (fun r o -> if c19_script true o <> script_of_string scripts.(r) then failwith "SCRIPT-MISMATCH") members os) gs groups;
  let order = List.concat gs in     (* position in the outer list -> world rank *)
  let outer_str r (e, n) = (match e with
      | Some C19_Normal -> "N" | Some (C19_GuardError (_, ne)) -> Printf.sprintf "G0e%dr%d" (int_of_nat ne) r
      | Some (C19_UserExc _) -> "P" | None -> "STUCK") ^ ":" ^ string_of_int (int_of_nat n) in
  let (inner, outer) = c19_nested_run groups in
  let res = Array.make p "?" and spec = Array.make p "?" in
  let inner_s = Array.make p "?" in
  List.iter2 (fun members g -> match g with
      | C19_Finished l | C19_Deadlock l -> List.iteri (fun i (r, o) -> inner_s.(r) <- obs_str i o) (List.combine members l)
      | C19_OutOfFuel -> List.iter (fun r -> inner_s.(r) <- "OUTOFFUEL") members) gs inner;
  (match outer with
   | C19_Finished l | C19_Deadlock l when List.length l = p -> List.iter2 (fun r o -> res.(r) <- inner_s.(r) ^ "/" ^ outer_str r o) order l
   | _ -> List.iter (fun r -> res.(r) <- inner_s.(r) ^ "/STUCK:0") order);
  (* spec: C19_nested's right-hand side *)
  let oo = c19_outer_outs (nat_of_int nsec) groups in
  List.iter2 (fun members os -> List.iteri (fun i r ->
      let (e, n) = c19_spec_exit true (nat_of_int nsec) os (nat_of_int i) in spec.(r) <- obs_str i (Some e, n)) members) gs groups;
  List.iteri (fun i r -> let (e, n) = c19_spec_exit true (S O) oo (nat_of_int i) in spec.(r) <- spec.(r) ^ "/" ^ outer_str r (Some e, n)) order;
  String.concat "|" (Array.to_list res) ^ " ## " ^ String.concat "|" (Array.to_list spec)

(* ---------------------------------------------------------------- futures *)
let fop_of_char = function 'v' -> C19_Valid | 'r' -> C19_Ready | 'w' -> C19_Wait | 'g' -> C19_Get | 'm' -> C19_Move
  | 'a' -> C19_MoveAssign | 'd' -> C19_SendData | c -> failwith (Printf.sprintf "fop %c" c)
let nbop_of_string = function
  | "isend" -> C19_Isend | "irecv" -> C19_Irecv | "ibcast" -> C19_Ibcast | "igather" -> C19_Igather | "iscatter" -> C19_Iscatter
  | "iallgather" -> C19_Iallgather | "iallreduce" | "iallreduce1" -> C19_Iallreduce | "ibarrier" | "default" | "efuture" | "mkvalid" -> C19_Ibarrier | s -> failwith ("nbop " ^ s)
let data_str (l : n list) =
  if List.length l > 16 then Printf.sprintf "[n=%d;sum=%d]" (List.length l) (List.fold_left (fun a x -> a + int_of_n x) 0 l)
  else "[" ^ String.concat "," (List.map (fun x -> string_of_int (int_of_n x)) l) ^ "]"
(* sv = the send data of this rank (what get_send_data must return) *)
let item_str sv = function
  | C19_TEnable -> ""
  | C19_TOp (o, r) ->
    let c = (match o with C19_Valid -> "v" | C19_Ready -> "r" | C19_Wait -> "w" | C19_Get -> "g" | C19_Move -> "m" | C19_MoveAssign -> "a" | C19_SendData -> "d") in
    c ^ (match r with C19_RBool true -> "1" | C19_RBool false -> "0" | C19_RUnit -> "." | C19_RData d -> d | C19_RSent -> sv | C19_RInvalid -> "X")
let trace_str sv tr = String.concat " " (List.filter (fun s -> s <> "") (List.map (item_str sv) tr))
let parse_item sv s =
  if String.length s < 2 then None else
  let o = (match s.[0] with 'v' -> Some C19_Valid | 'r' -> Some C19_Ready | 'w' -> Some C19_Wait | 'g' -> Some C19_Get | 'm' -> Some C19_Move
                          | 'a' -> Some C19_MoveAssign | 'd' -> Some C19_SendData | _ -> None) in
  let rest = String.sub s 1 (String.length s - 1) in
  match o with None -> None | Some o ->
    let r = (match rest with "1" -> Some (C19_RBool true) | "0" -> Some (C19_RBool false) | "." -> Some C19_RUnit | "X" -> Some C19_RInvalid
                           | _ -> if rest.[0] = '[' then Some (if o = C19_SendData && rest = sv then C19_RSent else C19_RData rest) else None) in
    (match r with None -> None | Some r -> Some (C19_TOp (o, r)))
let rec take n l = if n = 0 then [] else match l with [] -> [] | x :: r -> x :: take (n - 1) r
let rec drop n l = if n = 0 then l else match l with [] -> [] | _ :: r -> drop (n - 1) r

(* call orders: v r w g m a d as in the model; driver-level compositions of modelled steps:
     M / A  = move-construct / move-assign into a fresh object and call ready() on the TARGET (same state: a Ready step)
     S      = self move assignment (no step: the state must be unchanged)
     n      = the object receives a new operation: the order is cut into segments, each a fresh future *)
let rec split_at_n = function
  | [] -> [[]]
  | 'n' :: r -> [] :: split_at_n r
  | c :: r -> (match split_at_n r with h :: t -> (c :: h) :: t | [] -> [[c]])
let model_char = function 'M' | 'A' -> 'r' | c -> c
let relabel seg toks =
  let rec go seg toks = match seg, toks with
    | [], _ -> []
    | 'S' :: r, _ -> "S." :: go r toks
    | (('M' | 'A') as c) :: r, t :: ts -> (String.make 1 c ^ String.sub t 1 (String.length t - 1)) :: go r ts
    | _ :: r, t :: ts -> t :: go r ts
    | _ :: r, [] -> go r [] in
  String.concat " " (go seg toks)
let rec product = function
  | [] -> [""]
  | [s] -> s
  | s :: rest -> List.concat_map (fun a -> List.map (fun b -> a ^ " n. " ^ b) (product rest)) s

let future_case t impl_line =
  let p = int_of_string t.(1) and fam = t.(2) and op = t.(3) and pay = t.(4) and salt = int_of_string t.(6)
  and late = int_of_string t.(7) and dep = t.(8) and order = chars t.(9) in
  let segs = split_at_n order in
  let len = (match pay with "i" | "j" | "l" -> 1 | "v" | "w" | "q" | "F" | "s" -> 3 | "L" -> 3000 | _ -> 0) in
  let kind = (match pay with "i" | "v" | "q" | "F" | "L" | "l" | "s" | "e" -> C19_BValue | "j" | "w" -> C19_BRef | _ -> C19_BVoid) in
  let erased = t.(5) = "e" || t.(5) = "c" in
  let mpi = fam <> "N" in
  let rec prefix = function ('w' | 'g' | 'd' | 'n') :: _ -> 0 | _ :: r -> 1 + prefix r | [] -> 0 in
  let start_exc = (match op with "default" | "mkvalid" | "efuture" -> false
                            | _ -> c19_start_rejected (if mpi then C19_FamMPI else C19_FamSeq) (nbop_of_string op) (nat_of_int (if pay = "z" then 0 else max len 1))) in
  let k = prefix order in
  let impl_ranks = (match impl_line with Some l -> Array.of_list (List.map String.trim (split '|' l)) | None -> [||]) in
  (* r = rank inside the communicator of the operation; fam R: the communicator orders the processes in reverse *)
  let world_of r = if fam = "R" then p - 1 - r else r in
  let per_rank r =
    let pe, re = if mpi then p, r else 1, 0 in
    let root = salt mod pe in
    let mk w n = List.init n (fun i -> let x = 1000 * (w + 1) + 10 * salt + i in n_of_int (if pay = "s" then 97 + x mod 26 else x)) in
    let me q = if mpi then q else r in
    let ins = List.init pe (fun q -> if op = "iscatter" then (if q = root then mk (me q) (pe * len) else []) else mk (me q) len) in
    let outs = List.init pe (fun q -> [n_of_int (9000 + me q)]) in
    let v = if op = "mkvalid" then (if pay = "i" then "[0]" else "[]")
            else data_str (c19_spec_data (nbop_of_string op) (nat_of_int pe) (nat_of_int root) (nat_of_int re) ins outs) in
    let sv = data_str (List.nth ins re) in
    let is_dep = late >= 0 && r < String.length dep && dep.[r] = '1' in
    let seg_traces j seg =
      let ops = List.map (fun c -> fop_of_char (model_char c)) (List.filter (fun c -> c <> 'S') seg) in
      let nops = List.length ops in
      let first = j = 0 in
      (* a renewed object is what the same call returns again: for default / mkvalid / efuture the same kind of object *)
      let traces =
        if op = "efuture" then [c19_etrace c19_cfg_fixed kind v (List.map (fun o -> C19_EvOp o) ops) None]   (* empty Dune::Future<T> *)
        else if not mpi then [c19_ptrace ops { c19_pvalid = (op <> "default"); c19_pdata = v }]
        else if op = "default" || op = "mkvalid" then begin
          let f = c19_fut_ctor (if op = "default" then None else Some true) v in
          let h = List.map (fun o -> C19_EvOp o) ops in
          [if erased then c19_etrace c19_cfg_fixed kind v h (Some f) else c19_ftrace c19_cfg_fixed kind v h f] end
        else List.filter_map (fun c -> if first && is_dep && c < k then None
                               else let h = c19_history ops (nat_of_int c) and f = c19_fut_started "[stale]" in
                                 Some (if erased then c19_etrace c19_cfg_fixed kind v h (Some f) else c19_ftrace c19_cfg_fixed kind v h f))
               (List.init (nops + 2) (fun c -> c)) in
      (* type-erased wrapper around a PseudoFuture: the wrapper (unique_ptr) is what is moved, its source is emptied *)
      let traces = if erased && not mpi && op <> "efuture" then List.map (List.map (function C19_TOp ((C19_Move | C19_MoveAssign) as o, C19_RBool _) -> C19_TOp (o, C19_RBool false) | x -> x)) traces else traces in
      List.sort_uniq compare (List.map (fun tr -> relabel seg (List.filter (fun s -> s <> "") (List.map (item_str sv) tr))) traces) in
    let set = if start_exc then ["START-EXC(ParallelError)"] else product (List.mapi seg_traces segs) in
    let wr = world_of r in
    let verdict =
      if wr >= Array.length impl_ranks then None
      else if start_exc then (if impl_ranks.(wr) = "START-EXC(ParallelError)" then None else Some (Printf.sprintf "REJECT r%d fresh item0 start (ParallelError expected)" wr))
      else begin
        let toks = List.filter (fun s -> s <> "") (split ' ' impl_ranks.(wr)) in
        (* cut the impl's tokens at "n." *)
        let rec cut = function [] -> [[]] | "n." :: r -> [] :: cut r | x :: r -> (match cut r with h :: t -> (x :: h) :: t | [] -> [[x]]) in
        let isegs = cut toks in
        if List.length isegs <> List.length segs then Some (Printf.sprintf "REJECT r%d unparsable-or-incomplete" wr) else begin
          let check j seg itoks =
            (* align tokens with the call order of the segment *)
            let rec align seg itoks = match seg, itoks with
              | [], [] -> Some []
              | 'S' :: r, "S." :: ts -> align r ts
              | 'S' :: _, _ -> None
              | (('M' | 'A') as c) :: r, tk :: ts when String.length tk >= 2 && tk.[0] = c ->
                (match parse_item sv ("r" ^ String.sub tk 1 (String.length tk - 1)), align r ts with Some it, Some l -> Some (it :: l) | _ -> None)
              | ('M' | 'A') :: _, _ -> None
              | c :: r, tk :: ts when String.length tk >= 1 && tk.[0] = c ->
                (match parse_item sv tk, align r ts with Some it, Some l -> Some (it :: l) | _ -> None)
              | _, _ -> None in
            match align seg itoks with
            | None -> Some (Printf.sprintf "REJECT r%d unparsable-or-incomplete" wr)
            | Some items ->
              let en = if j = 0 && mpi && is_dep then k else 0 in
              let tr = take en items @ [C19_TEnable] @ drop en items in
              let taken0 = op = "default" || op = "efuture" in
              let acc tr = c19_spec_accept (fun a b -> a = b) v taken0 false false tr in
              if acc tr then None else begin
                let n = List.length tr in
                let rec first i = if i > n then n else if not (acc (take i tr)) then i else first (i + 1) in
                let i = first 1 in
                let taken = List.exists (function C19_TOp (_, C19_RData _) -> true | _ -> false) (take (i - 1) tr) in
                Some (Printf.sprintf "REJECT r%d %s item%d %s (delivered data %s)" wr (if taken then "after-get" else "fresh") (i - 1) (item_str sv (List.nth tr (i - 1))) v)
              end in
          let rec all j segs isegs = match segs, isegs with
            | s :: sr, i :: ir -> (match check j s i with Some x -> Some x | None -> all (j + 1) sr ir)
            | _, _ -> None in
          all 0 segs isegs
        end
      end in
    (String.concat " / " set, v, verdict) in
  let rs = List.init p per_rank in
  let rs = if fam = "R" then List.rev rs else rs in      (* lines are in world-rank order *)
  let model = String.concat " | " (List.map (fun (s, _, _) -> s) rs) in
  let spec = (match impl_line with
      | None -> String.concat "|" (List.map (fun (_, v, _) -> v) rs)
      | Some _ -> (match List.filter_map (fun (_, _, x) -> x) rs with [] -> "ACCEPT" | x :: _ -> x)) in
  model ^ " ## " ^ spec


(* ---------------------------------------------------------------- several futures / posted requests
   X P M multi pay wrap salt nslots actor script
   model observation (actor rank; the others '-'): one token per step  <step><result>/<requests posted in MPI>  and E/<n> after the
   destruction of all slots - or DROP-<reason> when the script is ill-formed, would block, or would race with a message arrival.
   oracle (with impl.out): the impl's tokens against the specification: the result of each call, and the number of posted
   requests = the number of requests the live futures stand for (theorem C19_requests_owned); 0 at the end. *)
let xcase t impl_line =
  let p = int_of_string t.(1) and pay = t.(4) and erased = t.(5) = "e" and salt = int_of_string t.(6)
  and nslots = int_of_string t.(7) and actor = int_of_string t.(8) in
  let steps = List.filter (fun s -> s <> "") (split '-' t.(9)) in
  let kind = (match pay with "j" | "w" -> C19_BRef | _ -> C19_BValue) in
  let data v = if pay = "i" || pay = "j" then Printf.sprintf "[%d]" v else Printf.sprintf "[%d,%d,%d]" (10 * v) (10 * v + 1) (10 * v + 2) in
  let d c = Char.code c - 48 in
  (* steps -> model operations (messages and handles are numbered in order) *)
  let nmsg = ref 0 and npost = ref 0 in
  let op_of st = (match st.[0] with
      | 'S' -> incr nmsg; C19_XSend (nat_of_int (100 * (salt + 1) + !nmsg))
      | 'p' -> incr npost; C19_XPost (false, O, nat_of_int (d st.[1]))
      | 'q' -> let h = !npost in incr npost; C19_XPost (true, nat_of_int (7000 + h), nat_of_int (d st.[1]))
      | 'c' -> C19_XMoveCtor (nat_of_int (d st.[1]), nat_of_int (d st.[2]))
      | 'a' -> C19_XAssign (nat_of_int (d st.[1]), nat_of_int (d st.[2]))
      | 'x' -> C19_XDestroy (nat_of_int (d st.[1]))
      | 'v' -> C19_XValid (nat_of_int (d st.[1])) | 'r' -> C19_XReady (nat_of_int (d st.[1]))
      | 'w' -> C19_XWait (nat_of_int (d st.[1])) | 'g' -> C19_XGet (nat_of_int (d st.[1]))
      | _ -> failwith ("xop " ^ st)) in
  let ops = List.map op_of steps in
  let res_str = function
    | C19_XRBool true -> "1" | C19_XRBool false -> "0" | C19_XRUnit -> "." | C19_XRData v -> data (int_of_nat v)
    | C19_XRInvalid -> "X" | C19_XRBlocks -> "BLOCKS" | C19_XRDangling -> "DANGLING" | C19_XRSkip -> "?" in
  (* walk through the script: drop reasons, tokens with the pool size (model) and with the owned count (specification) *)
  let drop = ref "" in
  let rec walk st steps ops = match steps, ops with
    | s :: sr, o :: orest ->
      let infl = List.map int_of_nat (c19_xinflight st) and unexp = st.c19_xunexp in
      let slot_req i = (match List.nth_opt st.c19_xslots i with Some (C19_SObj f) -> (match f.c19_xrq with Some h -> Some (int_of_nat h) | None -> None) | _ -> None) in
      (if infl <> [] then (match o with
           | C19_XSend _ | C19_XValid _ -> ()
           | C19_XWait i | C19_XGet i -> (match slot_req (int_of_nat i) with Some h when List.mem h infl -> () | _ -> if !drop = "" then drop := "RACY")
           | _ -> if !drop = "" then drop := "RACY"));
      (if unexp <> [] then (match o with
           | C19_XSend _ | C19_XValid _ | C19_XPost (false, _, _) -> ()
           | _ -> if !drop = "" then drop := "RACY"));
      let (r, st') = c19_xstep true erased kind o st in
      (match r with C19_XRBlocks -> if !drop = "" then drop := "BLOCKS" | C19_XRSkip -> if !drop = "" then drop := "ILLFORMED"
                  (* get() on a moved-from MPIFuture<T&> (still valid: known finding F-C19-2) hands out the buffer of an operation that
                     has delivered nothing yet: the content is whatever the caller's variable holds - not compared *)
                  | C19_XRData O -> if !drop = "" then drop := "STALE"
                  | C19_XRDangling -> failwith "dangling request in the model" | _ -> ());
      let npool = List.length st'.c19_xpool and nown = List.length (c19_owned st'.c19_xslots) in
      (s ^ res_str r, npool, nown) :: walk st' sr orest
    | _, _ ->
      let st' = c19_xrun true erased kind (List.init nslots (fun i -> C19_XDestroy (nat_of_int i))) st in
      [("E", List.length st'.c19_xpool, List.length (c19_owned st'.c19_xslots))] in
  let items = walk (c19_xinit (nat_of_int nslots)) steps ops in
  let model_actor = if !drop <> "" then "DROP-" ^ !drop else String.concat " " (List.map (fun (s, np, _) -> Printf.sprintf "%s/%d" s np) items) in
  let model = String.concat " | " (List.init p (fun r -> if r = actor then model_actor else "-")) in
  let spec = (match impl_line with
      | None -> "-"
      | Some l ->
        let ranks = Array.of_list (List.map String.trim (split '|' l)) in
        if Array.length ranks <> p then Printf.sprintf "REJECT r%d unparsable-or-incomplete" actor
        else begin
          let toks = List.filter (fun s -> s <> "") (split ' ' ranks.(actor)) in
          let expected = List.map (fun (s, _, no) -> (s, no)) items in
          let rec cmp i toks exp = match toks, exp with
            | [], [] -> "ACCEPT"
            | tk :: tr, (s, no) :: er ->
              (match String.rindex_opt tk '/' with
               | None -> Printf.sprintf "REJECT r%d unparsable-or-incomplete" actor
               | Some j ->
                 let res = String.sub tk 0 j and n = (try int_of_string (String.sub tk (j + 1) (String.length tk - j - 1)) with _ -> -1) in
                 if res <> s then Printf.sprintf "REJECT r%d result item%d %s (the specification prescribes %s)" actor i tk s
                 else if n <> no then Printf.sprintf "REJECT r%d posted item%d %s (%d request(s) posted in MPI, the live futures stand for %d)" actor i tk n no
                 else cmp (i + 1) tr er)
            | [], (s, _) :: _ -> Printf.sprintf "REJECT r%d result item%d missing (the specification prescribes %s)" actor i s
            | tk :: _, [] -> Printf.sprintf "REJECT r%d result item%d %s (nothing expected)" actor i tk in
          cmp 0 toks expected
        end) in
  model ^ " ## " ^ spec

let () =
  let ic = open_in Sys.argv.(1) in
  let impl = if Array.length Sys.argv > 2 then Some (open_in Sys.argv.(2)) else None in
  (try while true do
    let line = String.trim (input_line ic) in
    let il = (match impl with Some c -> (try Some (input_line c) with End_of_file -> Some "") | None -> None) in
    let t = Array.of_list (List.filter (fun s -> s <> "") (split ' ' line)) in
    let out = (try (match t.(0) with
        | "G" -> guard_case t
        | "Q" -> seq_case t
        | "N" | "O" -> nested_case t
        | "F" -> future_case t il
        | "X" -> xcase t il
        | _ -> "UNKNOWN-CASE ## -")
      with Failure m -> "MODEL-ERROR " ^ m ^ " ## -" | Invalid_argument m -> "MODEL-ERROR " ^ m ^ " ## -") in
    print_endline out
  done with End_of_file -> ())
