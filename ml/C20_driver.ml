(* C20 model driver: reads the case file (argv[1]); every line is one op script
     op ; op ; ...
   and prints ONE line per case: the observations of the extracted model (c20_step_reg), one token per op,
   joined by " ; ", followed by " # " and the final dump of all registers.  Ops that may write print the
   dump of all registers right after their own observation (so that aliasing is visible at once).
   argv[2] = "current" or C20_CFG=current selects c20_cfg_current (the code before fixes C20-1/C20-2); default: c20_cfg_fixed. *)
open C20_model

let rec pos_of_int i = if i <= 1 then XH else if i land 1 = 0 then XO (pos_of_int (i lsr 1)) else XI (pos_of_int (i lsr 1))
let z_of_int i = if i = 0 then Z0 else if i > 0 then Zpos (pos_of_int i) else Zneg (pos_of_int (- i))
let rec int_of_pos = function XH -> 1 | XO p -> 2 * int_of_pos p | XI p -> 2 * int_of_pos p + 1
let int_of_z = function Z0 -> 0 | Zpos p -> int_of_pos p | Zneg p -> - (int_of_pos p)
let rec nat_of_int i = if i <= 0 then O else S (nat_of_int (i - 1))
let rec int_of_nat = function O -> 0 | S n -> 1 + int_of_nat n

let q_of_string (s : string) : q =
  match String.index_opt s '/' with
  | None -> { qnum = z_of_int (int_of_string s); qden = XH }
  | Some k -> { qnum = z_of_int (int_of_string (String.sub s 0 k));
                qden = pos_of_int (int_of_string (String.sub s (k + 1) (String.length s - k - 1))) }
let string_of_q (x : q) : string =
  let x = qred x in
  let n = int_of_z x.qnum and d = int_of_pos x.qden in
  if d = 1 then string_of_int n else Printf.sprintf "%d/%d" n d
let qlist_of_string s = if s = "-" then [] else List.map q_of_string (String.split_on_char ',' s)
let string_of_qlist l = String.concat "," (List.map string_of_q l)
let optz s = if s = "_" then None else Some (z_of_int (int_of_string s))
let string_of_chars (l : char list) = String.concat "" (List.map (String.make 1) l)

let kind_letter = function C20_Vec -> "v" | C20_Arr -> "a"
let exc_name = function C20_IndexError -> "IndexError" | C20_TypeError -> "TypeError" | C20_ValueError -> "ValueError"
  | C20_RuntimeError -> "RuntimeError"
let obs_str = function
  | C20_ObsObj (k, vals) -> kind_letter k ^ "[" ^ string_of_qlist vals ^ "]"
  | C20_ObsAlias r -> "=r" ^ string_of_int (int_of_nat r)
  | C20_ObsScalar x -> "s:" ^ string_of_q x
  | C20_ObsBool b -> if b then "b:1" else "b:0"
  | C20_ObsInt z -> "i:" ^ string_of_int (int_of_z z)
  | C20_ObsList l -> "l[" ^ string_of_qlist l ^ "]"
  | C20_ObsStr s -> "\"" ^ string_of_chars s ^ "\""
  | C20_ObsNone -> "ok"
  | C20_ObsExc e -> "!" ^ exc_name e
  | C20_ObsUnmodelled -> "?"
let dropped : int list ref = ref []          (* registers whose Python reference was dropped (`drop r`): shown as x *)
let dump_str st =
  "{" ^ String.concat "|" (List.mapi (fun i (k, vals) ->
          if List.mem i !dropped then "x" else kind_letter k ^ "[" ^ string_of_qlist vals ^ "]") (c20_dump st)) ^ "}"

exception Bad_op of string
(* returns the op and whether the dump is printed after it *)
let float_mode = ref false     (* `f32` scripts: FieldVector<float,n>: float64 buffers are the rejected ones, float32 buffers the accepted *)
let parse_op ?(npv = false) (s : string) : c20_op * bool =
  let t = Array.of_list (List.filter (fun x -> x <> "") (String.split_on_char ' ' s)) in
  let r k = nat_of_int (int_of_string t.(k)) in
  let zi k = z_of_int (int_of_string t.(k)) in
  let qq k = q_of_string t.(k) in
  let ql k = qlist_of_string t.(k) in
  let ni k = nat_of_int (int_of_string t.(k)) in
  if npv then
    (* `npv` scripts: registers are NumPy arrays; every access goes through a C++ NumPyVector around register r *)
    match t.(0) with
    | "new" -> C20_NewArr (ql 3), false
    | "newv" -> C20_New (r 1, ql 3), false               (* a FieldVector whose buffer view is wrapped by the NumPyVector *)
    | "view" -> C20_View (r 1), false
    | "slice" -> C20_Slice (r 1, optz t.(2), optz t.(3), optz t.(4)), false
    | "len" -> C20_NLen (r 1), false
    | "get" -> C20_NGet (r 1, ni 2), false
    | "set" -> C20_NSet (r 1, ni 2, qq 3), true
    | "imuls" -> C20_NIMulS (r 1, qq 2), true
    | "idivs" -> C20_NIDivS (r 1, qq 2), true
    | "iadds" -> C20_NIAddS (r 1, qq 2), true
    | "isubs" -> C20_NISubS (r 1, qq 2), true
    | "norm1" -> C20_NNorm1 (r 1), false
    | "norm22" -> C20_NNorm22 (r 1), false
    | "norminf" -> C20_NNormInf (r 1), false
    | "getc" | "getva" | "getcopy" -> C20_NGet (r 1, ni 2), false      (* const operator[], vec_access, NumPyVector(size)+conversion *)
    | "bad2d" -> C20_NBadDim, false
    | x -> raise (Bad_op x)
  else
  match t.(0) with
  | "new" when !float_mode && List.mem t.(2) ["np"; "nprev"; "npstride"; "array"; "npcol"; "memview"; "npint"] -> C20_NewBadBuffer (false, nat_of_int 1), false
  | "new" when !float_mode && List.mem t.(2) ["npf32"; "nprev32"] -> C20_New (r 1, ql 3), false
  | "crossbad" -> C20_NewBadBuffer (false, nat_of_int 1), false
  | "new" when List.mem t.(2) ["npint"; "npf32"; "bytearray"; "arrayi"; "npbe"; "bytes"; "arrayf"] -> C20_NewBadBuffer (false, nat_of_int 1), false
  | "new" when t.(2) = "np2d" || t.(2) = "npro2d" -> C20_NewBadBuffer (true, nat_of_int 2), false
  | "new" when t.(2) = "np0d" -> C20_NewBadBuffer (true, nat_of_int 0), false
  | "newfrom" -> C20_NewFromBuf (r 1, r 2), false       (* FieldVector_n( R[r] ) through the buffer constructor *)
  | "new" -> C20_New (r 1, ql 3), false
  | "setslicefrom" -> C20_SetSliceFrom (r 1, optz t.(2), optz t.(3), optz t.(4), r 5), true
  | "arriadd" -> C20_ArrIAdd (r 1, r 2), true
  | "arrisub" -> C20_ArrISub (r 1, r 2), true
  | "arrimuls" -> C20_ArrIMulS (r 1, qq 2), true
  | "arriadds" -> C20_ArrIAddS (r 1, qq 2), true
  | "arradd" -> C20_ArrAdd (r 1, r 2), false
  | "drop" -> C20_Drop (r 1), false
  | "copyargs" -> C20_CopyArgs (r 1, ql 2), false
  | "float" -> C20_Float (r 1), false
  | "setslice" -> C20_SetSlice (r 1, optz t.(2), optz t.(3), optz t.(4), ql 5), true
  | "nel" -> C20_NeL (r 1, ql 2), false
  | "isubl" -> C20_ISubL (r 1, ql 2), true
  | "assignl" -> C20_AssignL (r 1, ql 2), true
  | "addt" -> C20_AddL (r 1, ql 2), false            (* tuple operand: implicitly_convertible< args, FV > *)
  | "eqt" -> C20_EqL (r 1, ql 2), false
  | "eqf" -> C20_EqL (r 1, [qq 2]), false            (* n = 1 only: the number converts to FieldVector<K,1> *)
  | "rdotl" -> C20_DotL (r 1, ql 2), false           (* list * v: __rmul__( T, T ) *)
  | "norm1r" -> C20_Norm1 (r 1), false               (* one_norm_real / infinity_norm_real: real entries *)
  | "norminfr" -> C20_NormInf (r 1), false
  | "div2" -> C20_DivS (r 1, qq 2), false            (* __div__ *)
  | "getnp" -> C20_Get (r 1, zi 2), false            (* numpy.int64 index *)
  | "setnp" -> C20_Set (r 1, zi 2, qq 3), true
  | "ellipsis" -> C20_Slice (r 1, None, None, None), false
  | "bufinfo32" -> C20_Len (r 1), false
  | "bufinfo" -> C20_Len (r 1), false                (* memoryview(v): format d, one dimension of n entries, stride 8, writable *)
  | "view" -> C20_View (r 1), false
  | "slice" -> C20_Slice (r 1, optz t.(2), optz t.(3), optz t.(4)), false
  | "copyctor" -> C20_CopyCtor (r 1), false
  | "copymeth" -> C20_CopyMeth (r 1), false
  | "get" -> C20_Get (r 1, zi 2), false
  | "set" -> C20_Set (r 1, zi 2, qq 3), true
  | "len" -> C20_Len (r 1), false
  | "iter" -> C20_Iter (r 1), false
  | "str" -> C20_Str (r 1), false
  | "repr" -> C20_Repr (r 1), false
  | "add" -> C20_Add (r 1, r 2), false
  | "sub" -> C20_Sub (r 1, r 2), false
  | "dot" -> C20_Dot (r 1, r 2), false
  | "eq" -> C20_Eq (r 1, r 2), false
  | "ne" -> C20_Ne (r 1, r 2), false
  | "addl" -> C20_AddL (r 1, ql 2), false
  | "raddl" -> C20_RAddL (r 1, ql 2), false
  | "subl" -> C20_SubL (r 1, ql 2), false
  | "rsubl" -> C20_RSubL (r 1, ql 2), false
  | "dotl" -> C20_DotL (r 1, ql 2), false
  | "eql" -> C20_EqL (r 1, ql 2), false
  | "muls" -> C20_MulS (r 1, qq 2), false
  | "rmuls" -> C20_RMulS (r 1, qq 2), false
  | "divs" -> C20_DivS (r 1, qq 2), false
  | "muli" -> C20_MulI (r 1, zi 2), false
  | "rmuli" -> C20_RMulI (r 1, zi 2), false
  | "addi" -> C20_AddI (r 1, zi 2), false
  | "subi" -> C20_SubI (r 1, zi 2), false
  | "raddi" -> C20_RAddI (r 1, zi 2), false
  | "rsubi" -> C20_RSubI (r 1, zi 2), false
  | "addf" -> C20_AddF (r 1, qq 2), false
  | "subf" -> C20_SubF (r 1, qq 2), false
  | "raddf" -> C20_RAddF (r 1, qq 2), false
  | "rsubf" -> C20_RSubF (r 1, qq 2), false
  | "neg" -> C20_Neg (r 1), false
  | "pos" -> C20_Pos (r 1), false
  | "iadd" -> C20_IAdd (r 1, r 2), true
  | "isub" -> C20_ISub (r 1, r 2), true
  | "iaddl" -> C20_IAddL (r 1, ql 2), true
  | "imuls" -> C20_IMulS (r 1, qq 2), true
  | "idivs" -> C20_IDivS (r 1, qq 2), true
  | "iadds" -> C20_IAddS (r 1, qq 2), true
  | "isubs" -> C20_ISubS (r 1, qq 2), true
  | "assign" -> C20_Assign (r 1, r 2), true
  | "norm1" -> C20_Norm1 (r 1), false
  | "norm22" -> C20_Norm22 (r 1), false
  | "norminf" -> C20_NormInf (r 1), false
  | x -> raise (Bad_op x)

(* seeding round 6: the exporter dimension.  `nx <kind> r <access>` = the access through a NumPyVector wrapped around a fresh
   EXPORTER of the memory of register r (kind: w, warr = writable; ro, romv, rob, robc = read-only, one-dimensional; ro2d =
   read-only, two-dimensional); `newfromx <kind> n r` = FieldVector_n( exporter of R[r] ) (w, ro, romv; rof32 = another format;
   ro2d); `addro r s` ... = the ordinary op with a read-only exporter of R[s] as operand (the conversion copies). *)
let export_of_kind (k : string) : c20_export =
  let mk ro fok nd = { c20_ex_readonly = ro; c20_ex_format_ok = fok; c20_ex_ndim = nat_of_int nd } in
  match k with
  | "w" | "warr" -> mk false true 1
  | "ro" | "romv" | "rob" | "robc" -> mk true true 1
  | "ro2d" -> mk true true 2
  | "rof32" -> mk true false 1
  | x -> raise (Bad_op ("export kind " ^ x))
let parse_xop ?(npv = false) (s : string) : c20_xop * bool =
  let t = Array.of_list (List.filter (fun x -> x <> "") (String.split_on_char ' ' s)) in
  let r k = nat_of_int (int_of_string t.(k)) in
  match t.(0) with
  | "nx" ->
      let acc = match t.(3) with
        | "len" -> C20_ALen | "get" -> C20_AGet (r 4) | "set" -> C20_ASet (r 4, q_of_string t.(5))
        | "imuls" -> C20_AIMulS (q_of_string t.(4)) | "iadds" -> C20_AIAddS (q_of_string t.(4)) | "norm22" -> C20_ANorm22
        | x -> raise (Bad_op x) in
      C20_NOnExport (export_of_kind t.(1), r 2, acc), true
  | "newfromx" -> C20_NewFromExport (export_of_kind t.(1), r 2, r 3), false
  | "addro" | "subro" | "dotro" | "eqro" | "iaddro" | "isubro" | "assignro" ->
      let base = String.sub t.(0) 0 (String.length t.(0) - 2) in
      let (op, _) = parse_op ~npv (base ^ " " ^ t.(1) ^ " " ^ t.(2)) in
      C20_X op, c20_mutating op
  | _ -> let (op, _) = parse_op ~npv s in C20_X op, c20_mutating op

(* `tv ; f 17 ; v 2,2 ; i 5`: the TupleVector scenario of harness/C20/impl.py (tv_case) on the extracted tuple model *)
let tv_show = function
  | C20_TFloat x -> "s:" ^ string_of_q x
  | C20_TInt z -> "i:" ^ string_of_int (int_of_z z)
  | C20_TVec l -> "v[" ^ string_of_qlist l ^ "]"
let tv_res = function C20_Ok v -> tv_show v | C20_Exc e -> "!" ^ exc_name e
let one = { qnum = z_of_int 1; qden = XH }
let tv_bump = function
  | C20_TFloat x -> C20_TFloat (c20_qadd x one)
  | C20_TInt z -> C20_TInt (z_of_int (int_of_z z + 1))
  | C20_TVec l -> C20_TVec (List.map (fun x -> c20_qadd x one) l)
let tv_line (parts : string list) : string =
  let elems = List.filter_map (fun p ->
    match List.filter (fun x -> x <> "") (String.split_on_char ' ' (String.trim p)) with
    | ["f"; x] -> Some (C20_TFloat (q_of_string x))
    | ["i"; x] -> Some (C20_TInt (z_of_int (int_of_string x)))
    | ["v"; x] -> Some (C20_TVec (qlist_of_string x))
    | _ -> None) parts in
  match c20_tv_construct elems with
  | None -> "!construct"
  | Some tv ->
    let n = List.length tv in
    let idx = List.init n (fun i -> i) in
    let out = ref [Printf.sprintf "len=%d" n] in
    let add s = out := s :: !out in
    List.iter (fun i -> add (Printf.sprintf "%d:%s" i (tv_res (c20_tv_getitem tv (z_of_int i))))) idx;
    add (Printf.sprintf "get%d:%s" n (tv_res (c20_tv_getitem tv (z_of_int n))));
    let cp = ref (c20_tv_copy tv) in
    List.iter (fun i ->
      match c20_tv_setitem !cp (z_of_int i) (tv_bump (List.nth elems i)) with
      | C20_Ok cp' -> cp := cp'; add (Printf.sprintf "set%d:ok" i)
      | C20_Exc e -> add (Printf.sprintf "set%d:!%s" i (exc_name e))) idx;
    add ("copy=" ^ String.concat "," (List.map (fun i -> tv_res (c20_tv_getitem !cp (z_of_int i))) idx));
    add ("orig=" ^ String.concat "," (List.map (fun i -> tv_res (c20_tv_getitem tv (z_of_int i))) idx));
    add ("neg:" ^ tv_res (c20_tv_getitem tv (z_of_int (-1))));
    List.iter (fun i ->                       (* a value that does not cast to the element type *)
      match c20_tv_setitem !cp (z_of_int i) (C20_TVec []) with
      | C20_Ok _ -> add (Printf.sprintf "bad%d:ok" i)
      | C20_Exc e -> add (Printf.sprintf "bad%d:!%s" i (exc_name e))) idx;
    let cp2 = c20_tv_assign !cp tv in
    add ("assign=" ^ String.concat "," (List.map (fun i -> tv_res (c20_tv_getitem cp2 (z_of_int i))) idx));
    let showall l = String.concat "," (List.map (fun i -> tv_res (c20_tv_getitem l (z_of_int i))) idx) in
    add ("self=" ^ showall (c20_tv_assign tv tv));
    let rec find_pair a b = if a >= n then None else if b >= n then find_pair (a + 1) (a + 2)
      else if c20_tv_type (List.nth tv a) = c20_tv_type (List.nth tv b) then Some (a, b) else find_pair a (b + 1) in
    (match find_pair 0 1 with
     | None -> add "xfer=-"
     | Some (a, b) ->
        (match c20_tv_setitem cp2 (z_of_int a) (List.nth tv b) with
         | C20_Ok l -> add ("xfer=" ^ showall l)
         | C20_Exc e -> add ("xfer=!" ^ exc_name e)));
    let rec first_vec0 i = function [] -> 0 | C20_TVec _ :: _ -> i | _ :: t -> first_vec0 (i + 1) t in
    add ("keep=" ^ tv_res (c20_tv_getitem tv (z_of_int (first_vec0 0 tv))));
    (* tv[j] is a reference to the stored element: writing entry 0 of the first vector element through it *)
    let rec first_vec i = function [] -> None | C20_TVec (_ :: r) :: _ -> Some (i, r) | _ :: t -> first_vec (i + 1) t in
    (match first_vec 0 tv with
     | None -> add "alias=-"
     | Some (j, rest) ->
        (match c20_tv_setitem tv (z_of_int j) (C20_TVec (q_of_string "99" :: rest)) with
         | C20_Ok tv' -> add ("alias=" ^ tv_res (c20_tv_getitem tv' (z_of_int j)))
         | C20_Exc e -> add ("alias=!" ^ exc_name e)));
    String.concat " | " (List.rev !out)

(* `dyn` / `dynj` scripts (DynamicVector, no aliasing between objects): the ops the model covers -- new, get, set, len, iter --
   through c20_dyn_index (the Python index wrapper + C++ bounds check); a script with any other op prints "-" (oracle only) *)
let dyn_line (parts : string list) : string =
  let regs = ref [||] in
  let dump () = "{" ^ String.concat "|" (Array.to_list (Array.map (fun l -> "d[" ^ string_of_qlist l ^ "]") !regs)) ^ "}" in
  let toks = List.map (fun p ->
    let t = Array.of_list (List.filter (fun x -> x <> "") (String.split_on_char ' ' (String.trim p))) in
    let r () = int_of_string t.(1) in
    match t.(0) with
    | "new" -> let l = if t.(2) = "noarg" then [] else qlist_of_string t.(3) in
               regs := Array.append !regs [| l |]; "d[" ^ string_of_qlist l ^ "]"
    | "len" -> "i:" ^ string_of_int (List.length (!regs).(r ()))
    | "iter" -> "l[" ^ string_of_qlist (!regs).(r ()) ^ "]"
    | "get" -> let l = (!regs).(r ()) in
               (match c20_dyn_index (nat_of_int (List.length l)) (z_of_int (int_of_string t.(2))) with
                | C20_Ok j -> "s:" ^ string_of_q (List.nth l (int_of_nat j))
                | C20_Exc e -> "!" ^ exc_name e)
    | "set" -> let l = (!regs).(r ()) in
               (match c20_dyn_index (nat_of_int (List.length l)) (z_of_int (int_of_string t.(2))) with
                | C20_Ok j -> (!regs).(r ()) <- List.mapi (fun k x -> if k = int_of_nat j then q_of_string t.(3) else x) l; "ok" ^ dump ()
                | C20_Exc e -> "!" ^ exc_name e ^ dump ())
    | x -> raise (Bad_op x)) parts in
  String.concat " ; " toks ^ " # " ^ dump ()

let () =
  let cfg = if (Array.length Sys.argv > 2 && Sys.argv.(2) = "current") || Sys.getenv_opt "C20_CFG" = Some "current"
            then c20_cfg_current else c20_cfg_fixed in
  let ic = open_in Sys.argv.(1) in
  (try while true do
    let line = String.trim (input_line ic) in
    let out =
      try
        let parts = String.split_on_char ';' line in
        let head = String.trim (List.hd parts) in
        if head = "tv" || head = "tva" then tv_line (List.tl parts) else
        if head = "dyn" || head = "dynj" then (try dyn_line (List.tl parts) with Bad_op _ -> "-") else
        let npv = (head = "npv") in
        float_mode := (head = "f32");
        let parts = if npv || !float_mode then List.tl parts else parts in
        let ops = List.map (fun s -> parse_xop ~npv (String.trim s)) parts in
        dropped := [];
        let st = ref c20_init and toks = ref [] in
        List.iter (fun (op, dumps) ->                      (* dumps: c20_mutating, the extracted classification used by C20_in_place_frame *)
          let (st', ob) = c20_xstep cfg !st op in
          (match op with C20_X (C20_Drop r) -> dropped := int_of_nat r :: !dropped | _ -> ());
          st := st';
          toks := (obs_str ob ^ (if dumps then dump_str st' else "")) :: !toks) ops;
        String.concat " ; " (List.rev !toks) ^ " # " ^ dump_str !st ^ (if c20_wfb !st then "" else " NOT-WF")
      with Bad_op x -> "UNKNOWN-OP " ^ x
         | Invalid_argument _ | Failure _ -> "BAD-CASE" in
    print_endline out
  done with End_of_file -> ())
