#!/bin/bash
# tools/apply_fix.sh Cxx-n : apply fixes/Cxx-n.patch to /repo and commit it with fixes/Cxx-n.msg (message must start with "fix:")
set -eu
F=$1; V=$(cd "$(dirname "$0")/.." && pwd)
head -1 "$V/fixes/$F.msg" | grep -q '^fix:' || { echo "message must start with fix:"; exit 1; }
git -C /repo diff --quiet || { echo "/repo has uncommitted changes"; exit 1; }
git -C /repo apply --check "$V/fixes/$F.patch"
git -C /repo apply "$V/fixes/$F.patch"
git -C /repo add -u
git -C /repo commit -q -F "$V/fixes/$F.msg"
git -C /repo log --oneline | head -1
