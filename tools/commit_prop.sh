#!/bin/bash
# tools/commit_prop.sh Cxx "message": stage one property's files, regenerate MANIFEST.json, commit
P=$1; MSG=${2:-"$P slice"}
cd "$(dirname "$0")/.."
for f in coq/${P}*.v coq/Properties_${P}.v ml/${P}* harness/${P} checks/${P}.py known_findings/${P}.json corpus/${P} mutants/${P} fixes/${P}-* tools/params.d/${P}*.py evidence/${P}.json coq/Params_gen.v gen/${P}*; do
  [ -e "$f" ] && git add "$f"
done
python3 - "$P" <<'PY'
import json,sys
r=json.load(open('tools/ready.json'))
if sys.argv[1] not in r: r.append(sys.argv[1]); r.sort(); json.dump(r, open('tools/ready.json','w'))
PY
python3 tools/gen_manifest.py && git add MANIFEST.json tools/ready.json
git commit -qm "$MSG" && git log --oneline | head -1
