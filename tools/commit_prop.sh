#!/bin/bash
# tools/commit_prop.sh Cxx "message": stage one property's files, regenerate MANIFEST.json, commit
P=$1; MSG=${2:-"$P slice"}
cd "$(dirname "$0")/.."
for f in coq/${P}*.v coq/Properties_${P}.v ml/${P}* harness/${P} checks/${P}.py known_findings/${P}.json corpus/${P} mutants/${P} fixes/${P}-* tools/params.d/${P}*.py evidence/${P}.json coq/Params_gen.v gen/${P}*; do
  [ -e "$f" ] && git add "$f"
done
python3 tools/gen_manifest.py && git add MANIFEST.json
git commit -qm "$MSG" && git log --oneline | head -1
