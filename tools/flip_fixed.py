#!/usr/bin/env python3
"""tools/flip_fixed.py Cxx F-id commit : mark a known finding as fixed (fixed entries suppress nothing)."""
import json, sys, os
V = os.path.dirname(os.path.dirname(os.path.abspath(__file__)))
p, fid, commit = sys.argv[1], sys.argv[2], sys.argv[3]
f = os.path.join(V, "known_findings", p + ".json")
d = json.load(open(f))
for e in d["findings"]:
    if e["id"] == fid:
        e["status"] = "fixed"; e["commit"] = commit
        w = e["what"]
        if not w.startswith("fixed:"):
            e["what"] = "fixed: property=%s %s %s" % (p, commit, w)
json.dump(d, open(f, "w"), indent=1)
