#!/usr/bin/env python3
"""Regenerate the generated tables of DESIGN.md section 10 (between the BEGIN/END markers) from
known_findings/*.json, seeded/*/{meta.json,verify.log}, evidence/*.json and mutants/."""
import json, glob, os, re
V = os.path.dirname(os.path.dirname(os.path.abspath(__file__)))
def findings_table():
    rows = ["| id | property | disposition | what fails |", "|---|---|---|---|"]
    for f in sorted(glob.glob(os.path.join(V, "known_findings", "C*.json"))):
        p = os.path.basename(f)[:3]
        for e in json.load(open(f)).get("findings", []):
            w = e["what"]
            if w.startswith("fixed:"):
                w = w.split(" ", 3)[3]
            w = re.sub(r"\s*\(?(fix(es)? (proposed )?in |proposed fix )?fixes/[\w./-]+\)?", "", w)
            disp = ("fixed in /repo by %s" % e.get("commit")) if e["status"] == "fixed" else "KNOWN FINDING (not repaired)"
            rows.append("| %s | %s | %s | %s |" % (e["id"], p, disp, w.replace("|", "\\|").replace("\n", " ")[:420]))
    return "\n".join(rows)
def seeded_table():
    rows = ["| property | seeded change (independent agent) | needs to manifest | suite with patch | our check on the patched tree |", "|---|---|---|---|---|"]
    for d in sorted(glob.glob(os.path.join(V, "seeded", "C*"))):
        p = os.path.basename(d)
        try:
            m = json.load(open(os.path.join(d, "meta.json")))
        except Exception:
            m = {}
        log = open(os.path.join(d, "verify.log")).read() if os.path.exists(os.path.join(d, "verify.log")) else ""
        chklog = log.split("== first contact")[-1] if "== first contact" in log else log
        suite = re.search(r"ctest[^\n]*: exit (\d+) : ([^\n]*)", log)
        nv = len(re.findall(r"^VIOLATION property=", chklog, re.M)); nnf = len(re.findall(r"^VIOLATION property=.*no-failing-input-found", chklog, re.M))
        demo = re.findall(r"demo on (clean|patched) tree: exit (\d+)", log)
        chk = "not run yet" if not log else ("CAUGHT: %d VIOLATION line(s), %d with a concrete replay" % (nv, nv - nnf) if nv else "MISSED (exit 0)")
        note = m.get("verif_note", "")
        rows.append("| %s | %s | %s | %s | %s%s |" % (p, str(m.get("summary", "?")).replace("|", "\\|")[:300], str(m.get("needs_to_manifest", "?")).replace("|", "\\|")[:260],
                    (suite.group(2) if suite else "?") + "; demo clean/patched exit " + "/".join(x[1] for x in demo), chk, (" — " + note) if note else ""))
    return "\n".join(rows)
def refactor_table():
    rows = ["| property | behaviour-preserving rewrite (independent agent) | files | our check on the rewritten tree |", "|---|---|---|---|"]
    for d in sorted(glob.glob(os.path.join(V, "refactors", "C*"))):
        try:
            m = json.load(open(os.path.join(d, "meta.json")))
        except Exception:
            m = {}
        res = open(os.path.join(d, "result.txt")).read().strip() if os.path.exists(os.path.join(d, "result.txt")) else "not run"
        verdict = "silent (exit 0)" if "exit 0" in res else res
        rows.append("| %s | %s | %s | %s |" % (os.path.basename(d), str(m.get("summary", "?")).replace("|", "\\|").replace("\n", " ")[:330], ", ".join(m.get("files_changed", []))[:120] if isinstance(m.get("files_changed"), list) else str(m.get("files_changed", "?"))[:120], verdict))
    return "\n".join(rows)
def status_table():
    rows = ["| property | obligations (theorems+examples) checked | axioms used | correspondence cases (quick) | hand-made mutants kept | known findings still open |", "|---|---|---|---|---|---|"]
    for f in sorted(glob.glob(os.path.join(V, "evidence", "C*.json"))):
        e = json.load(open(f)); c = e["coverage"]; p = e["property_id"]
        ax = sorted(set(a for t in c.get("theorems", []) for a in (t.get("axioms") or [])))
        nm = len(glob.glob(os.path.join(V, "mutants", p, "*.patch")))
        rows.append("| %s | %s/%s | %s | %s (%s tier run) | %d | %s |" % (p, c.get("discharged"), c.get("obligations"), ", ".join(a.split(".")[-1] for a in ax) or "none", c.get("evaluations"), e["tier"], nm, ", ".join(c.get("known_findings_reported", [])) or "—"))
    return "\n".join(rows)
p = os.path.join(V, "DESIGN.md"); s = open(p).read()
for name, fn in (("FINDINGS", findings_table), ("SEEDED", seeded_table), ("REFACTORS", refactor_table), ("STATUS", status_table)):
    b, e = "<!-- BEGIN GENERATED %s -->" % name, "<!-- END GENERATED %s -->" % name
    if b in s:
        s = s[:s.index(b) + len(b)] + "\n" + fn() + "\n" + s[s.index(e):]
open(p, "w").write(s)
