#!/usr/bin/env python3
"""Regenerate MANIFEST.json from the META dict of each checks/Cxx.py plugin."""
import os, sys, json, importlib.util, glob
VERIF = os.path.dirname(os.path.dirname(os.path.abspath(__file__)))
sys.path.insert(0, os.path.join(VERIF, "lib"))
props = [json.loads(l)["id"] for l in open(os.path.join(VERIF, "properties.jsonl"))]
checks, na = [], []
import subprocess
tracked = set(subprocess.run(["git", "-C", VERIF, "ls-files", "--cached", "checks"], capture_output=True, text=True).stdout.split())
READY = set(json.load(open(os.path.join(VERIF, "tools", "ready.json"))))   # properties integrated and verified by the main session
tracked = set(t for t in tracked if os.path.basename(t)[:-3] in READY)
NA_REASONS = json.load(open(os.path.join(VERIF, "tools", "not_applicable.json"))) if os.path.exists(os.path.join(VERIF, "tools", "not_applicable.json")) else {}
for p in props:
    f = os.path.join(VERIF, "checks", p + ".py")
    if not os.path.exists(f) or ("checks/%s.py" % p) not in tracked or p in NA_REASONS:
        na.append({"property_id": p, "reason": NA_REASONS.get(p, "check not built yet in this round (no claim made); see DESIGN.md section 4 for the planned model and theorems")})
        continue
    spec = importlib.util.spec_from_file_location("m", f); m = importlib.util.module_from_spec(spec); spec.loader.exec_module(m)
    M = m.META
    checks.append({
        "property_id": p,
        "quick_cmd": "bin/check %s --tier quick" % p,
        "thorough_cmd": "bin/check %s --tier thorough" % p,
        "evidence_file": "/verif/evidence/%s.json" % p,
        "replay_cmd_template": "bin/check %s --replay {path}" % p,
        "engine": "coq+correspondence",
        "level_claimed": {"category": M.get("level", "proof"), "text": M["text"], "design_ref": M.get("design_ref", "DESIGN.md section 4 " + p)},
        "level_note": M["note"],
        "technique": M["technique"],
    })
man = {
    "version": 1,
    "setup_cmd": "bin/setup",
    "hooks": {"guard": "DUNE_COMMON_VERIF", "enable": "harnesses are compiled with -DDUNE_COMMON_VERIF against /repo's working tree (no hook code is currently needed: internal state is read through the object representation / '#define private public' in deep harness parts, MPI schedules are perturbed through PMPI)",
              "baseline_off_cmd": "cd /repo/_build && cmake --build . --target build_tests -j16 && OMPI_ALLOW_RUN_AS_ROOT=1 OMPI_ALLOW_RUN_AS_ROOT_CONFIRM=1 ctest --test-dir /repo/_build -j8 --timeout 900",
              "source_commits": [], "add_only": True},
    "engines": [{"name": "coq+correspondence", "path": "bin/check", "serves_properties": [c["property_id"] for c in checks],
                 "kind_free_text": "Coq 8.16.1 theorems about a hand-written executable Gallina model (coq/), tied to /repo on every run by a differential correspondence check: extracted OCaml model (or coqc vm_compute) vs C++/Python drivers compiled from the working tree, plus a spec oracle and a constant translator (tools/extract_params.py)"}],
    "checks": checks,
    "notes": "See DESIGN.md. Fix commits in /repo and known findings are listed per property in known_findings/Cxx.json.",
    "not_applicable": na,
}
json.dump(man, open(os.path.join(VERIF, "MANIFEST.json"), "w"), indent=1)
print("MANIFEST: %d checks, %d not claimed" % (len(checks), len(na)))
