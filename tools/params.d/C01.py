# C01: the tokens of the eleven DenseMatrix kernels (dune/common/densematrix.hh mv..usmhv) and of the eleven DiagonalMatrix
# kernels (diagonalmatrix.hh) that decide WHICH linear map a kernel applies: loop bounds (rows() or cols()) of the outer and
# inner loop, which loop variable indexes the destination, the entry A[.][.] and the source vector, += or -=, whether the
# destination is reset to 0 first, whether the entry is conjugated (conjugateComplex), whether alpha multiplies.
# Emitted as one descriptor (9 booleans) per kernel; coq/C01_Model.v builds the kernel from the descriptor (c01_kernel_gen) and
# coq/C01_Proofs_Src.v proves descriptor-kernel = literal kernel = algebraic definition, so an edit of a token re-checks the proofs.
def lines(repo, read, find, report):
    import re
    KER = ["mv", "mtv", "umv", "umtv", "umhv", "mmv", "mmtv", "mmhv", "usmv", "usmtv", "usmhv"]
    # committed defaults: (outer_rows, inner_rows, tgt_outer, a_swapped, x_outer, conj, alpha, plus, reset)
    DEF = {"mv": (1, 0, 1, 0, 0, 0, 0, 1, 1), "mtv": (0, 1, 1, 1, 0, 0, 0, 1, 1),
           "umv": (1, 0, 1, 0, 0, 0, 0, 1, 0), "umtv": (1, 0, 0, 0, 1, 0, 0, 1, 0), "umhv": (1, 0, 0, 0, 1, 1, 0, 1, 0),
           "mmv": (1, 0, 1, 0, 0, 0, 0, 0, 0), "mmtv": (1, 0, 0, 0, 1, 0, 0, 0, 0), "mmhv": (1, 0, 0, 0, 1, 1, 0, 0, 0),
           "usmv": (1, 0, 1, 0, 0, 0, 1, 1, 0), "usmtv": (1, 0, 0, 0, 1, 0, 1, 1, 0), "usmhv": (1, 0, 0, 0, 1, 1, 1, 1, 0)}
    DG_DEF = {"mv": (0, 0, 0, 1), "mtv": (0, 0, 0, 1), "umv": (0, 0, 1, 0), "umtv": (0, 0, 1, 0), "umhv": (1, 0, 1, 0), "mmv": (0, 0, 0, 0),
              "mmtv": (0, 0, 0, 0), "mmhv": (1, 0, 0, 0), "usmv": (0, 1, 1, 0), "usmtv": (0, 1, 1, 0), "usmhv": (1, 1, 1, 0)}
    dm = read("dune/common/densematrix.hh")
    dg = read("dune/common/diagonalmatrix.hh")

    def body(text, name):
        m = re.search(r"void\s+%s\s*\((?:[^{};]|\n)*?\)\s*const\s*\{" % name, text)
        if not m:
            return None
        i = m.end(); depth = 1
        while i < len(text) and depth:
            depth += {"{": 1, "}": -1}.get(text[i], 0); i += 1
        return text[m.end():i]

    def dense(name):
        b = body(dm, name)
        if b is None:
            return None
        loops = re.findall(r"for\s*\(\s*size_type\s+(\w)\s*=\s*0\s*;\s*\1\s*<\s*(rows|cols)\(\)", b)
        st = re.search(r"yy\[(\w)\]\s*(\+=|-=)\s*((?:alpha|a)\s*\*\s*)?(conjugateComplex\()?\(\*this\)\[(\w)\]\[(\w)\]\)?\s*\*\s*xx\[(\w)\]", b)
        if len(loops) != 2 or not st:
            return None
        (o, ob), (n, nb) = loops
        tgt, sign, al, cj, a1, a2, xi = st.groups()
        if {a1, a2} != {o, n} or tgt not in (o, n) or xi not in (o, n):
            return None
        reset = re.search(r"yy\[%s\]\s*=\s*y_field_type\(0\)" % o, b) is not None
        return (int(ob == "rows"), int(nb == "rows"), int(tgt == o), int(a1 == n), int(xi == o), int(cj is not None), int(al is not None),
                int(sign == "+="), int(reset))

    def diag(name):
        b = body(dg, name)
        if b is None:
            return None
        if name == "mtv" and re.search(r"\bmv\s*\(\s*x\s*,\s*y\s*\)", b):
            return diag("mv")                       # mtv forwards to mv
        st = re.search(r"y\[i\]\s*(\+=|-=|=)\s*((?:alpha|a)\s*\*\s*)?(conjugateComplex\()?diag_\[i\]\)?\s*\*\s*x\[i\]", b)
        if not st or not re.search(r"for\s*\(\s*size_type\s+i\s*=\s*0\s*;\s*i\s*<\s*n\s*;", b):
            return None
        op, al, cj = st.groups()
        return (int(cj is not None), int(al is not None), int(op != "-="), int(op == "="))

    out = []
    names9 = ["outer_rows", "inner_rows", "tgt_outer", "a_swapped", "x_outer", "conj", "alpha", "plus", "reset"]
    for k in KER:
        d = dense(k)
        report["c01_param_dense_" + k] = {"value": list(d or DEF[k]), "source": "extracted" if d else "DEFAULT (not located in source)"}
        d = d or DEF[k]
        out.append("(* densematrix.hh %s: %s *)" % (k, ", ".join("%s=%d" % z for z in zip(names9, d))))
        out.append("Definition c01_param_dense_%s : list bool := (%s)%%list." % (k, " :: ".join("true" if b else "false" for b in d) + " :: nil"))
        g = diag(k)
        report["c01_param_diag_" + k] = {"value": list(g or DG_DEF[k]), "source": "extracted" if g else "DEFAULT (not located in source)"}
        g = g or DG_DEF[k]
        out.append("Definition c01_param_diag_%s : list bool := (%s)%%list.   (* diagonalmatrix.hh %s: conj, alpha, plus, assign *)" % (k, " :: ".join("true" if b else "false" for b in g) + " :: nil", k))
    # round 6: DenseMatrixAssigner<DenseMatrix, DiagonalMatrix<field,N>>::apply — is the dense target zero-filled
    # (`denseMatrix = field(0);`) before the diagonal is written?  (c01_assign_diag_into in coq/C01_Model.v)
    code = re.sub(r"//[^\n]*", "", dg)
    code = re.sub(r"/\*.*?\*/", "", code, flags=re.S)
    m = re.search(r"struct\s+DenseMatrixAssigner\s*<\s*DenseMatrix\s*,\s*DiagonalMatrix\s*<[^>]*>\s*>\s*\{", code)
    zf, src = True, "DEFAULT (not located in source)"
    if m:
        i = m.end(); depth = 1
        while i < len(code) and depth:
            depth += {"{": 1, "}": -1}.get(code[i], 0); i += 1
        b = code[m.end():i]
        loop = re.search(r"for\s*\(", b)
        if loop and re.search(r"denseMatrix\s*\[\s*i\s*\]\s*\[\s*i\s*\]\s*=\s*rhs\.diagonal\(\)\s*\[\s*i\s*\]", b[loop.start():]):
            zf = re.search(r"denseMatrix\s*=\s*(?:field|typename\s+DenseMatrix::field_type|K)\s*\(\s*0\s*\)\s*;", b[:loop.start()]) is not None
            src = "extracted"
    report["c01_param_diag_assign_zerofill"] = {"value": zf, "source": src}
    out.append("(* diagonalmatrix.hh DenseMatrixAssigner<Dense, DiagonalMatrix>::apply: target zero-filled before the diagonal is written *)")
    out.append("Definition c01_param_diag_assign_zerofill : bool := %s." % ("true" if zf else "false"))
    return out
