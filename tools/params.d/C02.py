# C02: defaults written in the C++ source that the model/theorems depend on
#  - default value of the doPivoting argument of DenseMatrix::solve / invert / determinant (densematrix.hh declarations)
#  - default FMatrixPrecision<>::absolute_limit() (precision.hh: `_absolute = 1E-80;`) as mantissa * 10^exp10
#  - the per-step singularity test of luDecomposition `nonsingularLanes = nonsingularLanes && (pivmax <cmp> <threshold>);`:
#    comparison token (0: `!=`, 1: `>`, 2: `>=`, 9: anything else) and threshold (0: `real_type(0)` / `0`, 1: an expression that
#    mentions absolute_limit, 9: anything else).  The model's pivot test at the rational instance (c02_q_pivzero) follows them.
def lines(repo, read, find, report):
    import re
    dm = read("dune/common/densematrix.hh")
    tb = lambda s: {"true": True, "false": False}[s]
    s_ = find("c02_param_solve_default_pivoting", dm, r"void\s+solve\s*\(\s*V1\s*&\s*x\s*,\s*const\s+V2\s*&\s*b\s*,\s*bool\s+doPivoting\s*=\s*(true|false)\s*\)\s*const\s*;", True, tb)
    i_ = find("c02_param_invert_default_pivoting", dm, r"void\s+invert\s*\(\s*bool\s+doPivoting\s*=\s*(true|false)\s*\)\s*;", True, tb)
    d_ = find("c02_param_det_default_pivoting", dm, r"field_type\s+determinant\s*\(\s*bool\s+doPivoting\s*=\s*(true|false)\s*\)\s*const\s*;", True, tb)
    pr = read("dune/common/precision.hh")
    def lim(s):
        m = re.fullmatch(r"([0-9]*)\.?([0-9]*)(?:[eE]([-+]?[0-9]+))?", s)
        ip, fp, ex = m.group(1) or "", m.group(2) or "", int(m.group(3) or 0)
        mant = int((ip + fp) or "0"); ex -= len(fp)
        while mant and mant % 10 == 0:
            mant //= 10; ex += 1
        return (mant, ex)
    mant, ex = find("c02_param_abs_limit", pr, r"FMatrixPrecision<ctype>::_absolute\s*=\s*([0-9.]+(?:[eE][-+]?[0-9]+)?)\s*;", (1, -80), lim)
    cmpc = lambda t: {"!=": 0, ">": 1, ">=": 2}.get(t, 9)
    def thrc(t):
        t = re.sub(r"\s+", "", t)
        if t in ("real_type(0)", "0", "real_type(0.0)", "0.0", "real_type{0}", "real_type()"): return 0
        return 1 if "absolute_limit" in t else 9
    rx = r"nonsingularLanes\s*=\s*nonsingularLanes\s*&&\s*\(\s*pivmax\s*%s\s*%s\s*\)\s*;"
    cm = find("c02_param_lu_sing_cmp", dm, rx % (r"([!=<>]=?)", r"[^;]*?"), 0, cmpc)
    th = find("c02_param_lu_sing_thr", dm, rx % (r"[!=<>]=?", r"([^;]*?)"), 0, thrc)
    b = lambda v: "true" if v else "false"
    return ["Definition c02_param_solve_default_pivoting : bool := %s." % b(s_),
            "Definition c02_param_invert_default_pivoting : bool := %s." % b(i_),
            "Definition c02_param_det_default_pivoting : bool := %s." % b(d_),
            "Definition c02_param_abs_limit_mant : Z := (%d)%%Z." % mant,
            "Definition c02_param_abs_limit_exp10 : Z := (%d)%%Z." % ex,
            "Definition c02_param_lu_sing_cmp : nat := %d." % cm,
            "Definition c02_param_lu_sing_thr : nat := %d." % th]
