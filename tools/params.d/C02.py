# C02: defaults written in the C++ source that the model/theorems depend on
#  - default value of the doPivoting argument of DenseMatrix::solve / invert / determinant (densematrix.hh declarations)
#  - default FMatrixPrecision<>::absolute_limit() (precision.hh: `_absolute = 1E-80;`) as mantissa * 10^exp10
def lines(repo, read, find, report):
    import re
    dm = read("dune/common/densematrix.hh")
    tb = lambda s: {"true": True, "false": False}[s]
    s_ = find("c02_param_solve_default_pivoting", dm, r"void\s+solve\s*\(\s*V1\s*&\s*x\s*,\s*const\s+V2\s*&\s*b\s*,\s*bool\s+doPivoting\s*=\s*(true|false)\s*\)\s*const\s*;", True, tb)
    i_ = find("c02_param_invert_default_pivoting", dm, r"void\s+invert\s*\(\s*bool\s+doPivoting\s*=\s*(true|false)\s*\)\s*;", True, tb)
    d_ = find("c02_param_det_default_pivoting", dm, r"field_type\s+determinant\s*\(\s*bool\s+doPivoting\s*=\s*(true|false)\s*\)\s*const\s*;", True, tb)
    pr = read("dune/common/precision.hh")
    def lim(s):
        m = re.fullmatch(r"([0-9]*)\.?([0-9]*)(?:[eE]([-+]?[0-9]+))?", s)
        ip, fp, ex = m.group(1) or "", m.group(2) or "", int(m.group(3) or 0)
        mant = int((ip + fp) or "0"); ex -= len(fp)
        while mant and mant % 10 == 0:
            mant //= 10; ex += 1
        return (mant, ex)
    mant, ex = find("c02_param_abs_limit", pr, r"FMatrixPrecision<ctype>::_absolute\s*=\s*([0-9.]+(?:[eE][-+]?[0-9]+)?)\s*;", (1, -80), lim)
    b = lambda v: "true" if v else "false"
    return ["Definition c02_param_solve_default_pivoting : bool := %s." % b(s_),
            "Definition c02_param_invert_default_pivoting : bool := %s." % b(i_),
            "Definition c02_param_det_default_pivoting : bool := %s." % b(d_),
            "Definition c02_param_abs_limit_mant : Z := (%d)%%Z." % mant,
            "Definition c02_param_abs_limit_exp10 : Z := (%d)%%Z." % ex]
