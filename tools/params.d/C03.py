# C03: literals of dune/common/parallel/indexset.hh that the model and its theorems depend on
#   - the five copies of the binary search start with `int low=0, high=size-1, probe=-1;`
#   - the "No entries!" test of exists()/at(): `probe==-1` (before fix 44ad213) or `localIndices_.size()==0`
#   - ParallelIndexSet(): seqNo_(0);  renumberLocal(): uint32_t index=0
import re
def lines(repo, read, find, report):
    src = read("dune/common/parallel/indexset.hh")
    inits = re.findall(r"int\s+low\s*=\s*(-?\d+)\s*,\s*high\s*=\s*localIndices_\.size\(\)\s*-\s*1\s*,\s*probe\s*=\s*(-?\d+)\s*;", src)
    if inits and len(set(inits)) == 1:
        low, probe = int(inits[0][0]), int(inits[0][1])
        report["c03_param_low_init"] = {"value": low, "source": "extracted (%d sites)" % len(inits)}
        report["c03_param_probe_init"] = {"value": probe, "source": "extracted (%d sites)" % len(inits)}
    else:
        low, probe = 0, -1
        report["c03_param_low_init"] = {"value": low, "source": "DEFAULT (sites not located or not uniform: %r)" % (inits,)}
        report["c03_param_probe_init"] = {"value": probe, "source": "DEFAULT"}
    nprobe = len(re.findall(r"if\s*\(\s*probe\s*==\s*-\s*1\s*\)", src))
    nsize = len(re.findall(r"if\s*\(\s*localIndices_\.size\(\)\s*==\s*0\s*\)\s*\n\s*(?:DUNE_THROW\(RangeError|return false)", src))
    legacy = nprobe > 0
    report["c03_param_legacy_probe_test"] = {"value": legacy, "source": "extracted (probe==-1 sites: %d, size()==0 sites: %d)" % (nprobe, nsize)}
    seq0 = find("c03_param_seq_init", src, r"seqNo_\(\s*(-?\d+)\s*\)", 0)
    ren0 = find("c03_param_renumber_start", src, r"uint32_t\s+index\s*=\s*(\d+)\s*;", 0)
    return ["Definition c03_param_low_init : Z := (%d)%%Z." % low,
            "Definition c03_param_probe_init : Z := (%d)%%Z." % probe,
            "Definition c03_param_legacy_probe_test : bool := %s." % ("true" if legacy else "false"),
            "Definition c03_param_seq_init : Z := (%d)%%Z." % seq0,
            "Definition c03_param_renumber_start : N := %d%%N." % ren0]
