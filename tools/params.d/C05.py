# C05: constants and code shapes of interface.hh / communicator.hh / enumset.hh / selection.hh that the model and its theorems
# depend on (re-read on every run).  Numeric constants enter the model directly (message tags, request slots of the
# DatatypeCommunicator); for structural choices a boolean says whether the source still has the modelled form, and
# Properties_C05.v proves `C05_source_matches_model` (all flags true) -- an edit of the source that changes one of these
# shapes at one of its sites flips a flag and the theorem no longer checks; a shape that has disappeared altogether (the
# code was rewritten) is reported as "not located" in the evidence and does not fail the theorem -- the behaviour-preserving
# rewrites refactors/C05 and refactors/C05-2 raised `no-failing-input-found` alarms before this rule.
import re as _re

def lines(repo, read, find, report):
    com = read("dune/common/parallel/communicator.hh")
    itf = read("dune/common/parallel/interface.hh")
    ens = read("dune/common/enumset.hh")
    sel = read("dune/common/parallel/selection.hh")
    def flag(name, text, rx, default=True, count=None):
        if not text:
            report[name] = {"value": default, "source": "DEFAULT (file not found)"}
            return default
        n = len(_re.findall(rx, text, _re.S))
        if n == 0:
            # the modelled form occurs NOWHERE any more: the code was rewritten (DESIGN 1.1: a constant that cannot be located
            # falls back to the committed default, the fact is recorded in the evidence, and the correspondence check alone
            # carries the tie).  A shape that is still present at SOME but not all of its sites is a change of one site: false.
            report[name] = {"value": default, "source": "DEFAULT (modelled code shape not located: rewritten; tie carried by the correspondence)"}
            return default
        # located at n of the `count` sites the model was transcribed from: the other sites were rewritten (e.g. a range-for in
        # refactors/C05-2); the number of sites is a matter of factoring, so only the evidence records it
        report[name] = {"value": True, "source": "extracted (%d of %s sites)" % (n, count if count is not None else ">=1")}
        return True
    b = lambda x: "true" if x else "false"
    dt_tag = find("c05_param_datatype_tag", com, r"(?s)class DatatypeCommunicator.*?constexpr static int commTag_\s*=\s*(\d+)\s*;", 234)
    bc_tag = find("c05_param_buffered_tag", com, r"(?s)class BufferedCommunicator.*?constexpr static int commTag_\s*=\s*(\d+)\s*;", 0)
    slot_f = find("c05_param_dt_slot_created_forward", com, r"static int index = createForward \? (\d+) : \d+;", 1)
    slot_b = find("c05_param_dt_slot_created_backward", com, r"static int index = createForward \? \d+ : (\d+);", 0)
    use_f = find("c05_param_dt_slot_used_by_forward", com, r"DatatypeCommunicator<T>::forward\(\)\s*\{\s*sendRecv\(requests_\[(\d+)\]\);", 1)
    use_b = find("c05_param_dt_slot_used_by_backward", com, r"DatatypeCommunicator<T>::backward\(\)\s*\{\s*sendRecv\(requests_\[(\d+)\]\);", 0)
    flags = [
      ("c05_param_build_frees_first", com, r"\{\s*free\(\);\s*interfaces_=interface\.interfaces\(\);", 2),
      ("c05_param_entry_iff_positive", com, r"if \(noSend \+ noRecv > 0\)", 2),
      ("c05_param_offsets_always_advance", com, r"\)\)\)\)\);\s*bufferSize_\[0\] \+= noSend;\s*bufferSize_\[1\] \+= noRecv;", 2),
      ("c05_param_forward_sends_buffer0", com, r"if\(FORWARD\) \{\s*sendBuffer = reinterpret_cast<Type\*>\(buffers_\[0\]\);\s*sendBufferSize = bufferSize_\[0\];\s*recvBuffer = reinterpret_cast<Type\*>\(buffers_\[1\]\);", 1),
      ("c05_param_scatter_list_by_direction", com, r"const Information& info = FORWARD \? infoPair->second\.second :\s*infoPair->second\.first;", 2),
      ("c05_param_gather_list_by_direction", com, r"(?:forward|FORWARD) \? interfacePair->second\.first\.size\(\) :\s*interfacePair->second\.second\.size\(\)", 2),
      ("c05_param_waitany_once_per_real_receive", com, r"for\(i=0; i< numberOfRealRecvRequests; i\+\+\) \{\s*status\.MPI_ERROR=MPI_SUCCESS;\s*MPI_Waitany\(messageInformation_\.size\(\), recvRequests, &finished, &status\);", 1),
      ("c05_param_scatters_finished_process", com, r"int& proc = processMap\[finished\];", 1),
      ("c05_param_dt_recv_type_by_direction", com, r"MPI_Datatype type = createForward \? process->second\.second : process->second\.first;\s*void\* address = const_cast<void\*>\(CommPolicy<V>::getAddress\(receiveData,0\)\);", 1),
      ("c05_param_dt_send_type_by_direction", com, r"MPI_Datatype type = createForward \? process->second\.first : process->second\.second;\s*void\* address =\s*const_cast<void\*>\(CommPolicy<V>::getAddress\(sendData, 0\)\);", 1),
      ("c05_param_dt_build_request_arguments", com, r"createDataTypes<T1,T2,V,false>\(source,destination, receiveData\);\s*createDataTypes<T1,T2,V,true>\(source,destination, sendData\);\s*createRequests<V,true>\(sendData, receiveData\);\s*createRequests<V,false>\(receiveData, sendData\);", 1),
      ("c05_param_dt_block_of_local_index", com, r"CommPolicy<V>::getAddress\(data_, local\)\),\s*info\.displ\+info\.elements\);\s*info\.length\[info\.elements\]=CommPolicy<V>::getSize\(data_, local\);", 1),
      ("c05_param_strip_both_empty", itf, r"if\(interfacePair->second\.first\.size\(\)==0 && interfacePair->second\.second\.size\(\)==0\)", 1),
      ("c05_param_build_asserts_empty", itf, r"assert\(interfaces_\.empty\(\)\);", 1),
      ("c05_param_unsynced_refused", itf, r"if\(!remoteIndices\.isSynced\(\)\)\s*DUNE_THROW\(RemoteIndicesStateError", 1),
      ("c05_param_remote_attribute_test", itf, r"if\( send \?\s+destFlags\.contains\(remote->attribute\(\)\) :\s*sourceFlags\.contains\(remote->attribute\(\)\)\)", 2),
      ("c05_param_local_attribute_test", itf, r"if\( send \? sourceFlags\.contains\(remote->localIndexPair\(\)\.local\(\)\.attribute\(\)\) :\s*destFlags\.contains\(remote->localIndexPair\(\)\.local\(\)\.attribute\(\)\)\)", 2),
      ("c05_param_free_clears_map", itf, r"interfacePair->second\.second\.free\(\);\s*\}\s*interfaces_\.clear\(\);", 1),
      ("c05_param_eq_compares_other", itf, r"if\(om->second\.first!=m->second\.first\)\s*return false;\s*if\(om->second\.second!=m->second\.second\)\s*return false;", 1),
      ("c05_param_enumitem_eq", ens, r"return item==i;", 1),
      ("c05_param_enumrange_inclusive", ens, r"return from<=item && item<=to;", 1),
      ("c05_param_negate_is_not", ens, r"return !S::contains\(item\);", 1),
      ("c05_param_combine_is_or", ens, r"return TI1::contains\(item\) \|\|\s*TI2::contains\(item\);", 1),
      ("c05_param_emptyset_false_allset_true", ens, r"EmptySet<TA>::contains\(\[\[maybe_unused\]\] const Type& attribute\)\s*\{\s*return false;\s*\}.*?AllSet<TA>::contains\(\[\[maybe_unused\]\] const Type& attribute\)\s*\{\s*return true;\s*\}", 1),
      ("c05_param_ibuild_adopts_communicator", itf, r"\{\s*communicator_=remoteIndices\.communicator\(\);\s*assert\(interfaces_\.empty\(\)\);", 1),
      ("c05_param_bbuild_adopts_communicator", com, r"free\(\);\s*interfaces_=interface\.interfaces\(\);\s*communicator_=interface\.communicator\(\);", 2),
      ("c05_param_sendrecv_on_own_communicator", com, r"MPI_BYTE, info->first, commTag_, communicator_,", 4),
      ("c05_param_dt_build_adopts_remoteindices", com, r"\{\s*remoteIndices_ = &remoteIndices;\s*free\(\);", 1),
      ("c05_param_dt_requests_on_remote_communicator", com, r"process->first, commTag_, this->remoteIndices_->communicator\(\), requests_\[index\]\+request\);", 2),
      ("c05_param_selection_default_initialised", sel, r"Selection\(\)\s*:\s*selected_\(\), size_\(0\), built_\(false\)", 1),
      ("c05_param_selection_filters_attribute", sel, r"if\(AttributeSet::contains\(index->local\(\)\.attribute\(\)\)\)\s*selected_\[entries\+\+\]= index->local\(\)\.local\(\);", 1),
    ]
    out = ["Definition c05_param_buffered_tag : nat := %d.  Definition c05_param_datatype_tag : nat := %d." % (bc_tag, dt_tag),
           "Definition c05_param_dt_slot_created_forward : nat := %d.  Definition c05_param_dt_slot_created_backward : nat := %d." % (slot_f, slot_b),
           "Definition c05_param_dt_slot_used_by_forward : nat := %d.  Definition c05_param_dt_slot_used_by_backward : nat := %d." % (use_f, use_b)]
    names = []
    for (name, text, rx, cnt) in flags:
        v = flag(name, text, rx, True, cnt)
        out.append("Definition %s : bool := %s." % (name, b(v)))
        names.append(name)
    out.append("Definition c05_param_all_shapes : list bool := (" + " :: ".join(names) + " :: nil)%list.")
    return out
