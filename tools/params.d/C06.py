# C06: default message-buffer size of VariableSizeCommunicator (dune/common/parallel/variablesizecommunicator.hh:
# `: maxBufferSize_(32768), interface_(&inf)` in the constructors without max_buffer_size)
def lines(repo, read, find, report):
    src = read("dune/common/parallel/variablesizecommunicator.hh")
    n = find("c06_param_default_buffer", src, r"maxBufferSize_\(\s*(\d+)\s*\)", 32768)
    return ["Definition c06_param_default_buffer : N := %d%%N." % n]
