# C06: constants of dune/common/parallel/variablesizecommunicator.hh the model depends on:
#  - default message-buffer size (`: maxBufferSize_(32768), interface_(&inf)` in the constructors without max_buffer_size)
#  - the two message tags: fixedSize scalar (sendFixedSize) and size/data messages (SetupSendRequest/SetupRecvRequest);
#    the model keeps the scalar on a separate channel (l_fs), which is sound only if the tags differ (theorem C06_tags_distinct)
def lines(repo, read, find, report):
    src = read("dune/common/parallel/variablesizecommunicator.hh")
    n = find("c06_param_default_buffer", src, r"maxBufferSize_\(\s*(\d+)\s*\)", 32768)
    ts = find("c06_param_tag_size", src, r"MPI_Issend\(&\(iter->fixedSize\),\s*1,[^;]*?iter->rank\(\),\s*(\d+)\s*,", 933881)
    td = find("c06_param_tag_data", src, r"MPI_Issend\(buffer,\s*size,[^;]*?tracker\.rank\(\),\s*(\d+)\s*,", 933399)
    tr = find("c06_param_tag_data_recv", src, r"MPI_Irecv\(buffer,\s*buffer\.size\(\),[^;]*?tracker\.rank\(\),\s*(\d+)\s*,", 933399)
    tsr = find("c06_param_tag_size_recv", src, r"MPI_Irecv\(&\(iter->fixedSize\),\s*1,[^;]*?iter->rank\(\),\s*(\d+)\s*,", 933881)
    return ["Definition c06_param_default_buffer : N := %d%%N." % n,
            "Definition c06_param_tag_size : N := %d%%N.  Definition c06_param_tag_size_recv : N := %d%%N." % (ts, tsr),
            "Definition c06_param_tag_data : N := %d%%N.  Definition c06_param_tag_data_recv : N := %d%%N." % (td, tr)]
