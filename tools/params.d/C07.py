# C07: tables and literals of mpicommunication.hh / mpitraits.hh / mpipack.hh the collective / marshalling model depends on
#   ComposeMPIOp(<functor>, <MPI op>)            -> c07_param_opmap   (op codes for std::plus, std::multiplies, Min, Max; 0 SUM 1 PROD 2 MIN 3 MAX)
#   MPI_Op_create(..., <commute>, ...)           -> c07_param_op_commute
#   ComposeMPITraits(<C type>, <MPI type>)       -> c07_param_traits  (MPI type codes for the 14 C types, fixed order; 98 absent, 99 unknown)
#   MPITraits<std::uint<N>_t> in the bigunsignedint trait -> c07_param_bigint_digit_bits
#   the int size prefix of MPIPack (getPackSize / MPI_Pack / MPI_Unpack must agree) -> c07_param_pack_prefix_type
#   pack(): `size_t(_position + size) > _buffer.size()` (grow only)  -> c07_param_pack_grow_only
#   igather / iallgather: datatype used on the receive side (mpidata_in.type() after 954025b) -> c07_param_igather_recv_sendtype, c07_param_iallgather_recv_sendtype
#   igather: recvcount (me==root) * in.size();  iscatter: sendcount (me==root) * in.size()/procs -> c07_param_iscatter_divides_by_procs
import re as _re
_OPS = ["MPI_SUM", "MPI_PROD", "MPI_MIN", "MPI_MAX"]
_FUN = ["std::plus", "std::multiplies", "Min", "Max"]
_CT = ["char", "unsigned char", "short", "unsigned short", "int", "unsigned int", "long", "unsigned long", "float", "double", "long double",
       "std::complex<double>", "std::complex<long double>", "std::complex<float>"]
_MT = ["MPI_CHAR", "MPI_UNSIGNED_CHAR", "MPI_SHORT", "MPI_UNSIGNED_SHORT", "MPI_INT", "MPI_UNSIGNED", "MPI_LONG", "MPI_UNSIGNED_LONG", "MPI_FLOAT",
       "MPI_DOUBLE", "MPI_LONG_DOUBLE", "MPI_CXX_DOUBLE_COMPLEX", "MPI_CXX_LONG_DOUBLE_COMPLEX", "MPI_CXX_FLOAT_COMPLEX"]
def lines(repo, read, find, report):
    c = read("dune/common/parallel/mpicommunication.hh"); t = read("dune/common/parallel/mpitraits.hh"); p = read("dune/common/parallel/mpipack.hh")
    def lst(l): return "(" + "".join("cons %d (" % x for x in l) + "nil" + ")" * len(l) + ")"
    B = lambda x: "true" if x else "false"
    ops = dict((f.strip(), o.strip()) for f, o in _re.findall(r"^\s*ComposeMPIOp\(\s*([\w:]+)\s*,\s*(\w+)\s*\)\s*;", c, _re.M))
    opmap = [(_OPS.index(ops[f]) if ops.get(f) in _OPS else 99) if f in ops else 98 for f in _FUN]
    report["c07_param_opmap"] = {"value": opmap, "source": "extracted" if ops else "DEFAULT (not located in source)"}
    if not ops: opmap = [0, 1, 2, 3]
    m = _re.search(r"MPI_Op_create\s*\([^;]*?&operation\s*,\s*(true|false|0|1)\s*,", c)
    commute = (m.group(1) in ("true", "1")) if m else True
    report["c07_param_op_commute"] = {"value": commute, "source": "extracted" if m else "DEFAULT (not located in source)"}
    tr = dict((a.strip(), b.strip()) for a, b in _re.findall(r"^\s*ComposeMPITraits\(\s*([^,]+?)\s*,\s*(\w+)\s*\)\s*;", t, _re.M))
    traits = [(_MT.index(tr[ct]) if tr.get(ct) in _MT else 99) if ct in tr else 98 for ct in _CT]
    report["c07_param_traits"] = {"value": traits, "source": "extracted" if tr else "DEFAULT (not located in source)"}
    if not tr: traits = list(range(14))
    dig = find("c07_param_bigint_digit_bits", t, r"MPI_Type_contiguous\(\s*bigunsignedint<k>::n\s*,\s*MPITraits<\s*std::uint(\d+)_t\s*>::getType\(\)", 16, int)
    pre = _re.findall(r"getPackSize\(\s*1\s*,\s*_comm\s*,\s*(\w+)\s*\)", p) + _re.findall(r"MPI_Pack\(\s*&size\s*,\s*1\s*,\s*(\w+)\s*,", p) \
        + _re.findall(r"&size\s*,\s*1\s*,\s*(\w+)\s*,\s*_comm\s*\)", p)
    # all located sites must agree on one type; HOW MANY sites there are depends on how the code is factored (merged overloads,
    # extracted helpers) and is not part of the model: a behaviour-preserving rewrite that merged two sites raised an alarm before
    prefix = _MT.index(pre[0]) if len(pre) >= 1 and len(set(pre)) == 1 and pre[0] in _MT else (4 if not pre else 99)
    report["c07_param_pack_prefix_type"] = {"value": prefix, "source": "extracted (%d sites)" % len(pre) if pre else "DEFAULT (not located in source)"}
    m = _re.search(r"size_t\(\s*_position\s*\+\s*size\s*\)\s*(>=|>|!=|==|<=|<)\s*_buffer\.size\(\)", p)
    grow = (m.group(1) == ">") if m else True
    report["c07_param_pack_grow_only"] = {"value": grow, "source": "extracted" if m else "DEFAULT (not located in source)"}
    def recvtype(fn):
        m = _re.search(fn + r"\s*\(\s*mpidata_in\.ptr\(\)\s*,\s*mpidata_in\.size\(\)\s*,\s*mpidata_in\.type\(\)\s*,\s*mpidata_out\.ptr\(\)\s*,\s*outlen\s*,\s*mpidata_(in|out)\.type\(\)", c)
        report["c07_param_%s_recv_sendtype" % fn[4:].lower()] = {"value": (m.group(1) == "in") if m else True, "source": "extracted" if m else "DEFAULT (not located in source)"}
        return (m.group(1) == "in") if m else True
    ig = recvtype("MPI_Igather"); ia = recvtype("MPI_Iallgather")
    m = _re.search(r"int\s+inlen\s*=\s*\(me==root\)\s*\*\s*mpidata_in\.size\(\)\s*(/\s*procs)?\s*;", c)
    isc = bool(m.group(1)) if m else True
    report["c07_param_iscatter_divides_by_procs"] = {"value": isc, "source": "extracted" if m else "DEFAULT (not located in source)"}
    return ["Definition c07_param_opmap : list nat := %s." % lst(opmap),
            "Definition c07_param_op_commute : bool := %s." % B(commute),
            "Definition c07_param_traits : list nat := %s." % lst(traits),
            "Definition c07_param_bigint_digit_bits : nat := %d." % dig,
            "Definition c07_param_pack_prefix_type : nat := %d." % prefix,
            "Definition c07_param_pack_grow_only : bool := %s." % B(grow),
            "Definition c07_param_igather_recv_sendtype : bool := %s." % B(ig),
            "Definition c07_param_iallgather_recv_sendtype : bool := %s." % B(ia),
            "Definition c07_param_iscatter_divides_by_procs : bool := %s." % B(isc)]
