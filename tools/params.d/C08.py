# C08: constants / source variants of dune/common/fmatrixev.hh and dynmatrixev.hh the model and its theorems depend on
# (re-read on every run):
#  2x2 path     the literal of `q > -1e-14`; whether the identity special case uses the RELATIVE threshold
#               epsilon * matrix.infinity_norm() (fix 036412d) or an absolute literal; whether the second eigenvector is the
#               first one rotated by 90 degrees (fix 5d8c1e8)
#  3x3 path     whether eigenValues3dImpl sorts its result (fix 3c4d542)
#  LAPACK       jobz = "nv"[Tag], uplo, lwork = 3*N - 1 of the symmetric call; jobvl/jobvr, lwork = vectors ? 4*N : 3*N and
#               the array the vectors are read from (vl after fix e466d71) of DynamicMatrixHelp::eigenValuesNonSym;
#               lwork = 3*dim of FMatrixHelp::eigenValuesNonSym
import re as _re

def c08_scan(ev, dyn):
    """-> dict of values (None = not located)"""
    out = {}
    def grp(rx, text, conv=lambda s: s):
        m = _re.search(rx, text, _re.S)
        try:
            return conv(m.group(1)) if m else None
        except Exception:
            return None
    out["thrq"] = grp(r"q\s*<\s*0\s*&&\s*q\s*>\s*-\s*([0-9][0-9.]*(?:[eE][-+]?[0-9]+)?)", ev)
    out["id_abs"] = grp(r"temp\.infinity_norm\(\)\s*<=\s*([0-9][0-9.]*(?:[eE][-+]?[0-9]+)?)\s*\)", ev)
    out["id_rel"] = _re.search(r"temp\.infinity_norm\(\)\s*<=\s*std::numeric_limits<\s*K\s*>::epsilon\(\)\s*\*\s*matrix\.infinity_norm\(\)\s*\)", ev) is not None
    out["perp"] = _re.search(r"eigenVectors\[1\]\s*=\s*\{\s*-\s*eigenVectors\[0\]\[1\]\s*,\s*eigenVectors\[0\]\[0\]\s*\}", ev) is not None
    out["eig3_sorted"] = _re.search(r"eigenvalues\[1\]\s*=\s*3\s*\*\s*q\s*-\s*eigenvalues\[0\]\s*-\s*eigenvalues\[2\]\s*;.*?std::sort\(eigenvalues\.begin\(\),\s*eigenvalues\.end\(\)\)\s*;\s*return r;", ev, _re.S) is not None
    out["jobz"] = grp(r'const\s+char\s+jobz\s*=\s*"(\w\w)"\[Tag\]', ev)
    out["uplo"] = grp(r"const\s+char\s+uplo\s*=\s*'(\w)'", ev)
    m = _re.search(r"const\s+long\s+int\s+lwork\s*=\s*(\d+)\s*\*\s*N\s*-\s*(\d+)\s*;", ev)
    out["lwork_sym"] = (int(m.group(1)), int(m.group(2))) if m else None
    out["fm_lwork"] = grp(r"const\s+long\s+int\s+lwork\s*=\s*(\d+)\s*\*\s*dim\s*;", ev, int)
    m = _re.search(r"eigenValuesNonSym\(const FieldMatrix.*?const\s+char\s+jobvl\s*=\s*'(\w)'\s*;\s*const\s+char\s+jobvr\s*=\s*'(\w)'", ev, _re.S)
    out["fm_jobs"] = (m.group(1), m.group(2)) if m else None
    out["dyn_jobvl"] = grp(r"const\s+char\s+jobvl\s*=\s*([^;]+);", dyn, lambda s: s.strip())
    out["dyn_jobvr"] = grp(r"const\s+char\s+jobvr\s*=\s*([^;]+);", dyn, lambda s: s.strip())
    m = _re.search(r"const\s+long\s+int\s+lwork\s*=\s*eigenVectors\s*\?\s*(\d+)\s*\*\s*N\s*:\s*(\d+)\s*\*\s*N\s*;", dyn)
    out["dyn_lwork"] = (int(m.group(1)), int(m.group(2))) if m else None
    out["dyn_read"] = grp(r"std::copy\(\s*(v[lr])\.get\(\)\s*\+\s*N\s*\*\s*i", dyn)
    return out

def lines(repo, read, find, report):
    from fractions import Fraction
    from decimal import Decimal
    sc = c08_scan(read("dune/common/fmatrixev.hh"), read("dune/common/dynmatrixev.hh"))
    def rec(name, val, default):
        if val is None:
            report[name] = {"value": default, "source": "DEFAULT (not located in source)"}
            return default
        report[name] = {"value": val, "source": "extracted"}
        return val
    b = lambda x: "true" if x else "false"
    thrq = Fraction(Decimal(rec("c08_param_thrq", sc["thrq"], "1e-14")))
    id_rel = rec("c08_param_id_rel", sc["id_rel"] if (sc["id_rel"] or sc["id_abs"] is not None) else None, True)
    id_abs = Fraction(Decimal(sc["id_abs"])) if sc["id_abs"] is not None else Fraction(0)
    report["c08_param_id_abs"] = {"value": str(id_abs), "source": "extracted" if sc["id_abs"] is not None else "no absolute literal in source"}
    perp = rec("c08_param_perp", sc["perp"], True)
    e3s = rec("c08_param_eig3_sorted", sc["eig3_sorted"], True)
    jobz = rec("c08_param_jobz", sc["jobz"], "nv")
    uplo = rec("c08_param_uplo", sc["uplo"], "u")
    lws = rec("c08_param_lwork_sym", sc["lwork_sym"], (3, 1))
    fml = rec("c08_param_fm_lwork", sc["fm_lwork"], 3)
    fmj = rec("c08_param_fm_jobs", sc["fm_jobs"], ("n", "n"))
    def jobexpr(s):
        """(value when eigenvectors are requested, value when not) of `eigenVectors ? 'v' : 'n'` or a plain literal"""
        if s is None:
            return None
        m = _re.match(r"eigenVectors\s*\?\s*'(\w)'\s*:\s*'(\w)'$", s)
        if m:
            return (m.group(1), m.group(2))
        m = _re.match(r"'(\w)'$", s)
        return (m.group(1), m.group(1)) if m else None
    jvl = rec("c08_param_dyn_jobvl", jobexpr(sc["dyn_jobvl"]), ("v", "n"))
    jvr = rec("c08_param_dyn_jobvr", jobexpr(sc["dyn_jobvr"]), ("n", "n"))
    dlw = rec("c08_param_dyn_lwork", sc["dyn_lwork"], (4, 3))
    drd = rec("c08_param_dyn_read", sc["dyn_read"], "vl")
    isv = lambda ch: b(ch in ("v", "V"))
    return ["Definition c08_param_thrq_num : Z := %d%%Z.  Definition c08_param_thrq_den : Z := %d%%Z." % (thrq.numerator, thrq.denominator),
            "Definition c08_param_id_rel : bool := %s.  Definition c08_param_id_abs_num : Z := %d%%Z.  Definition c08_param_id_abs_den : Z := %d%%Z." % (b(id_rel), id_abs.numerator, id_abs.denominator),
            "Definition c08_param_perp : bool := %s.  Definition c08_param_eig3_sorted : bool := %s." % (b(perp), b(e3s)),
            "Definition c08_param_jobz_tag0_v : bool := %s.  Definition c08_param_jobz_tag1_v : bool := %s.  Definition c08_param_uplo_upper : bool := %s."
            % (isv(jobz[0]), isv(jobz[1]), b(uplo in ("u", "U"))),
            "Definition c08_param_lwork_sym_mul : nat := %d.  Definition c08_param_lwork_sym_sub : nat := %d.  Definition c08_param_fm_lwork_mul : nat := %d." % (lws[0], lws[1], fml),
            "Definition c08_param_fm_jobvl_v : bool := %s.  Definition c08_param_fm_jobvr_v : bool := %s." % (isv(fmj[0]), isv(fmj[1])),
            "Definition c08_param_dyn_jobvl_want_v : bool := %s.  Definition c08_param_dyn_jobvl_nowant_v : bool := %s." % (isv(jvl[0]), isv(jvl[1])),
            "Definition c08_param_dyn_jobvr_want_v : bool := %s.  Definition c08_param_dyn_jobvr_nowant_v : bool := %s." % (isv(jvr[0]), isv(jvr[1])),
            "Definition c08_param_dyn_lwork_want_mul : nat := %d.  Definition c08_param_dyn_lwork_nowant_mul : nat := %d.  Definition c08_param_dyn_read_vl : bool := %s."
            % (dlw[0], dlw[1], b(drd == "vl"))]
