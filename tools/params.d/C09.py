# C09: constants of densematrix.hh that the dense-matrix part of the model depends on, re-read from the source:
#   * the largest rows() for which determinant / solve / invert use a closed form (the model dispatches 1, 2, 3 | LU),
#   * the throwEarly argument each of them passes to luDecomposition (solve, invert: true; determinant: false).
# coq/Properties_C09.v (C09_params_match_model) and the model itself (throwEarly flags) are re-checked against them.
import re

def lines(repo, read, find, report):
    src = read("dune/common/densematrix.hh")
    out = []

    def body(header_rx):
        m = re.search(header_rx, src)
        if not m: return ""
        i = src.find("{", m.end()); depth = 0; j = i
        while j < len(src):
            if src[j] == "{": depth += 1
            elif src[j] == "}":
                depth -= 1
                if depth == 0: break
            j += 1
        return src[i:j + 1]

    bodies = {
        "solve": body(r"inline\s+void\s+DenseMatrix<MAT>::solve\s*\(V1&\s*x,\s*const\s+V2&\s*b,\s*bool\s+doPivoting\)\s*const"),
        "invert": body(r"inline\s+void\s+DenseMatrix<MAT>::invert\s*\(bool\s+doPivoting\)"),
        "det": body(r"DenseMatrix<MAT>::determinant\s*\(bool\s+doPivoting\)\s*const"),
    }
    for name, default_te in (("solve", 1), ("invert", 1), ("det", 0)):
        b = bodies[name]
        ks = sorted(set(int(k) for k in re.findall(r"rows\(\)\s*==\s*(\d+)", b)))
        ok = bool(ks) and ks == list(range(1, len(ks) + 1))
        val = ks[-1] if ok else 3
        report["c09_param_closed_form_max_" + name] = {"value": val, "source": "extracted" if ok else "DEFAULT (not located in source)"}
        out.append("Definition c09_param_closed_form_max_%s : nat := %d." % (name, val))
        m = re.search(r"luDecomposition\s*\(\s*A\s*,[^;]*?nonsingularLanes\s*,\s*(true|false)\s*,\s*doPivoting\s*\)", b)
        te = (1 if m.group(1) == "true" else 0) if m else default_te
        report["c09_param_throw_early_" + name] = {"value": te, "source": "extracted" if m else "DEFAULT (not located in source)"}
        out.append("Definition c09_param_throw_early_%s : bool := %s." % (name, "true" if te else "false"))
    return out
