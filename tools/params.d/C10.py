# C10: further constants of dune/common/bigunsignedint.hh and dune/common/hash.hh that the model and the
# theorems of coq/Properties_C10.v depend on (the digit width and the three masks are read by
# tools/extract_params.py itself):
#   hexdigits, the nibble mask / nibble width of print, the literal base of the double accumulation in
#   todouble (`1<<bits`), the result width of touint (uint_least32_t), the digit value numeric_limits::max()
#   stores, every constant member of std::numeric_limits<bigunsignedint<k>>, the zero literal of its
#   function members, the form of `n`, and the multiplier / shift of hash_combiner<8>.
def lines(repo, read, find, report):
    import re
    big = read("dune/common/bigunsignedint.hh")
    hh = read("dune/common/hash.hh")
    out = []
    def N(name, v):
        out.append("Definition %s : N := %d%%N." % (name, v))
    def B(name, v):
        out.append("Definition %s : bool := %s." % (name, "true" if v else "false"))
    tobool = lambda s: {"true": 1, "false": 0}[s]
    N("c10_param_hexdigits", find("c10_param_hexdigits", big, r"constexpr\s+static\s+int\s+hexdigits\s*=\s*(\d+)\s*;", 4))
    N("c10_param_nibble_bits", find("c10_param_nibble_bits", big, r"digit\[i\]\s*>>\s*\(\s*d\s*\*\s*(\d+)\s*\)", 4))
    N("c10_param_nibble_mask", find("c10_param_nibble_mask", big, r"digit\[i\]\s*>>\s*\(d\*\d+\)\s*\)\s*&\s*(0x[0-9a-fA-F]+|\d+)", 15))
    # touint returns std::uint_least32_t and widens digit[1] to that type before the shift
    N("c10_param_touint_bits", find("c10_param_touint_bits", big, r"inline\s+std::uint_least(\d+)_t\s+bigunsignedint<k>::touint", 32, int))
    # todouble: val = val*(1<<bits)+digit[i]  (1 = the literal that is shifted), 53/bits digits are representable
    N("c10_param_todouble_base_literal", find("c10_param_todouble_base_literal", big, r"val\s*=\s*val\s*\*\s*\(\s*(\d+)\s*<<\s*bits\s*\)\s*\+\s*digit\[i\]", 1))
    B("c10_param_todouble_uses_ldexp", find("c10_param_todouble_uses_ldexp", big, r"return\s+std::(ldexp)\s*\(\s*val\s*,\s*bits\s*\*\s*lastInRepresentableRange\s*\)", 0, lambda s: 1))
    # n = k/bits+(k%bits!=0): recorded as a flag that the source still has this form
    B("c10_param_n_is_ceil", find("c10_param_n_is_ceil", big, r"constexpr\s+static\s+int\s+n\s*=\s*(k/bits\+\(k%bits!=0\))\s*;", 0, lambda s: 1))
    # numeric_limits<bigunsignedint<k>>::max(): every digit = numeric_limits<uint16_t>::max()
    m = re.search(r"digit\(max_,i\)\s*=\s*std::numeric_limits<\s*std::uint(\d+)_t\s*>::max\(\)", big)
    if m:
        v = 2 ** int(m.group(1)) - 1; report["c10_param_max_digit"] = {"value": v, "source": "extracted"}
    else:
        v = 65535; report["c10_param_max_digit"] = {"value": v, "source": "DEFAULT (not located in source)"}
    N("c10_param_max_digit", v)
    # the part of the file that specialises numeric_limits
    nl = big[big.find("struct numeric_limits<Dune::bigunsignedint<k>"):] if "struct numeric_limits<Dune::bigunsignedint<k>" in big else ""
    for nm, dflt in [("is_specialized", 1), ("is_signed", 0), ("is_integer", 1), ("is_exact", 1), ("has_infinity", 0),
                     ("has_quiet_NaN", 0), ("has_signaling_NaN", 0), ("has_denorm_loss", 0), ("is_iec559", 0),
                     ("is_bounded", 1), ("is_modulo", 1), ("traps", 0), ("tinyness_before", 0)]:
        B("c10_param_lim_" + nm, find("c10_param_lim_" + nm, nl, r"static\s+const\s+bool\s+%s\s*=\s*(true|false)\s*;" % nm, dflt, tobool))
    for nm, dflt in [("radix", 2), ("min_exponent", 0), ("min_exponent10", 0), ("max_exponent", 0), ("max_exponent10", 0)]:
        N("c10_param_lim_" + nm, find("c10_param_lim_" + nm, nl, r"static\s+const\s+int\s+%s\s*=\s*(\d+)\s*;" % nm, dflt))
    styles = ["round_indeterminate", "round_toward_zero", "round_to_nearest", "round_toward_infinity", "round_toward_neg_infinity"]
    # std::float_round_style: round_indeterminate = -1, round_toward_zero = 0, ...: stored as value + 1
    N("c10_param_lim_round_style_plus1", find("c10_param_lim_round_style_plus1", nl, r"float_round_style\s+round_style\s*=\s*(\w+)\s*;", 1, lambda s: styles.index(s)))
    den = ["denorm_indeterminate", "denorm_absent", "denorm_present"]
    N("c10_param_lim_has_denorm_plus1", find("c10_param_lim_has_denorm_plus1", nl, r"float_denorm_style\s+has_denorm\s*=\s*(\w+)\s*;", 1, lambda s: den.index(s)))
    # digits = bits * n
    B("c10_param_lim_digits_is_bits_times_n", find("c10_param_lim_digits_is_bits_times_n", nl,
      r"static\s+const\s+int\s+digits\s*=\s*(Dune::bigunsignedint<k>::bits\s*\*\s*Dune::bigunsignedint<k>::n)\s*;", 0, lambda s: 1))
    # min/epsilon/round_error/infinity/quiet_NaN/signaling_NaN/denorm_min all return static_cast<...>(<literal>)
    for nm in ["min", "epsilon", "round_error", "infinity", "quiet_NaN", "signaling_NaN", "denorm_min"]:
        N("c10_param_lim_%s_literal" % nm, find("c10_param_lim_%s_literal" % nm, nl,
          r"(?s)static\s+Dune::bigunsignedint<k>\s+%s\(\)(?:\s*noexcept)?\s*\{\s*return\s+static_cast<Dune::bigunsignedint<k>\s*>\((\d+)\)\s*;" % nm, 0))
    # hash_combiner<8> (64-bit std::size_t): multiplier and shift of the CityHash-style mixer, start seed of hash_range
    h8 = hh[hh.find("struct hash_combiner<8>"):hh.find("struct hash_combiner<4>")] if "struct hash_combiner<8>" in hh else ""
    N("c10_param_hash_kmul", find("c10_param_hash_kmul", h8, r"kMul\s*=\s*(0x[0-9a-fA-F]+)ULL\s*;", 0x9ddfea08eb382d69))
    N("c10_param_hash_shift_a", find("c10_param_hash_shift_a", h8, r"a\s*\^=\s*\(\s*a\s*>>\s*(\d+)\s*\)", 47))
    N("c10_param_hash_shift_b", find("c10_param_hash_shift_b", h8, r"b\s*\^=\s*\(\s*b\s*>>\s*(\d+)\s*\)", 47))
    N("c10_param_hash_seed0", find("c10_param_hash_seed0", hh, r"(?s)inline\s+std::size_t\s+hash_range\(It first, It last\)\s*\{\s*std::size_t\s+seed\s*=\s*(\d+)\s*;", 0))
    N("c10_param_size_t_bits", 64)   # platform constant (LP64); the impl driver reports sizeof(std::size_t) in the `consts` case
    return out
