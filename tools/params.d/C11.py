# C11: ArrayList's chunk-size rule `constexpr static int chunkSize_ = (N > 0) ? N : 1;` and the default template argument N=100
def lines(repo, read, find, report):
    al = read("dune/common/arraylist.hh")
    thr = find("c11_param_al_chunk_threshold", al, r"chunkSize_\s*=\s*\(\s*N\s*>\s*(\d+)\s*\)\s*\?\s*N\s*:\s*\d+\s*;", 0)
    mn = find("c11_param_al_min_chunk", al, r"chunkSize_\s*=\s*\(\s*N\s*>\s*\d+\s*\)\s*\?\s*N\s*:\s*(\d+)\s*;", 1)
    dn = find("c11_param_al_default_N", al, r"template\s*<\s*class\s+T\s*,\s*int\s+N\s*=\s*(\d+)\s*,\s*class\s+A\s*=[^>]*>\s*>\s*class\s+ArrayList", 100)
    return ["Definition c11_param_al_chunk_threshold : nat := %d." % thr,
            "Definition c11_param_al_min_chunk : nat := %d." % mn,
            "Definition c11_param_al_default_N : nat := %d." % dn]
