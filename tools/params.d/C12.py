# C12: character sets and words that readINITree / ParameterTree compare against, re-read from the sources:
#   the blank set of ltrim/rtrim/split (string literal of every find_{first,last}_{not_,}of call in both .cc files),
#   the quote characters and the comment character of readINITree, the words Parser<bool> accepts.
import re as _re

def _unescape(s):
    out, i = [], 0
    esc = {"t": 9, "n": 10, "r": 13, "v": 11, "f": 12, "0": 0, "\\": 92, "'": 39, '"': 34}
    while i < len(s):
        if s[i] == "\\" and i + 1 < len(s):
            out.append(esc.get(s[i + 1], ord(s[i + 1]))); i += 2
        else:
            out.append(ord(s[i])); i += 1
    return out

def _nlist(codes):
    r = "nil"
    for c in reversed(codes):
        r = "(cons %d%%N %s)" % (c, r)
    return r

def lines(repo, read, find, report):
    pp = read("dune/common/parametertreeparser.cc")
    pt = read("dune/common/parametertree.cc")
    hh = read("dune/common/parametertree.hh")
    ws = [32, 9, 10, 13]
    lits = _re.findall(r'find_(?:first|last)_(?:not_)?of\(\s*"((?:[^"\\]|\\.)*)"', pp + pt)
    sets = set(tuple(_unescape(l)) for l in lits)
    if len(sets) == 1:
        ws = list(sets.pop()); report["c12_param_ws"] = {"value": ws, "source": "extracted (%d call sites agree)" % len(lits)}
    else:
        report["c12_param_ws"] = {"value": ws, "source": "DEFAULT (no or differing blank-set literals: %r)" % sorted(sets)}
    quotes = [39, 34]
    m = _re.search(r"\(value\[0\]=='((?:\\.|[^']))'\)\s*\|\|\s*\(value\[0\]=='((?:\\.|[^']))'\)", pp)
    if m:
        quotes = _unescape(m.group(1)) + _unescape(m.group(2)); report["c12_param_quotes"] = {"value": quotes, "source": "extracted"}
    else:
        report["c12_param_quotes"] = {"value": quotes, "source": "DEFAULT (not located in source)"}
    comment = 35
    m = _re.search(r'comment\s*=\s*line\.find\(\s*"((?:\\.|[^"]))"\s*\)', pp)
    if m:
        comment = _unescape(m.group(1))[0]; report["c12_param_comment"] = {"value": comment, "source": "extracted"}
    else:
        report["c12_param_comment"] = {"value": comment, "source": "DEFAULT (not located in source)"}
    tw, fw = ["yes", "true"], ["no", "false"]
    mt = _re.search(r'if\s*\(\s*ret\s*==\s*"(\w+)"\s*\|\|\s*ret\s*==\s*"(\w+)"\s*\)\s*return\s+true\s*;', hh)
    mf = _re.search(r'if\s*\(\s*ret\s*==\s*"(\w+)"\s*\|\|\s*ret\s*==\s*"(\w+)"\s*\)\s*return\s+false\s*;', hh)
    if mt and mf:
        tw, fw = [mt.group(1), mt.group(2)], [mf.group(1), mf.group(2)]
        report["c12_param_bool_words"] = {"value": [tw, fw], "source": "extracted"}
    else:
        report["c12_param_bool_words"] = {"value": [tw, fw], "source": "DEFAULT (not located in source)"}
    def words(ws_):
        r = "nil"
        for w in reversed(ws_):
            r = "(cons %s %s)" % (_nlist([ord(c) for c in w]), r)
        return r
    return ["Definition c12_param_ws : list N := %s." % _nlist(ws),
            "Definition c12_param_quotes : list N := %s." % _nlist(quotes),
            "Definition c12_param_comment : N := %d%%N." % comment,
            "Definition c12_param_true_words : list (list N) := %s." % words(tw),
            "Definition c12_param_false_words : list (list N) := %s." % words(fw)]
