# C13: constants / code shapes of dune/common/parallel/indicessyncer.hh (and the modifier repair of remoteindices.hh) that the
# model coq/C13_Model.v and the theorems of coq/Properties_C13.v depend on:
#   - the message tag of sync (Issend / Probe / Recv must use the same one: the model delivers what was sent)
#   - the value DefaultNumberer returns (numeric_limits<size_t>::max()) and the `public` flag of re-added pairs (both add sites)
#   - which attribute insertIntoRemoteIndexList's duplicate test reads (remote attribute = repaired code, v_rattr) and whether
#     recvAndUnpack guards indexSet_.add with the addedIndices_ record (v_dedup): the variant of the model that describes the tree
#   - whether sync() clears infoSend_ (second call on one object) and whether the modifier's repair advances giter
def lines(repo, read, find, report):
    import re
    src = read("dune/common/parallel/indicessyncer.hh")
    ri = read("dune/common/parallel/remoteindices.hh")
    out = []
    def N(name, v): out.append("Definition %s : N := %d%%N." % (name, v))
    def B(name, v): out.append("Definition %s : bool := %s." % (name, "true" if v else "false"))
    N("c13_param_tag_send", find("c13_param_tag_send", src, r"MPI_Issend\(buffer,\s*bpos,\s*MPI_PACKED,\s*destination,\s*(\d+)\s*,", 345))
    N("c13_param_tag_probe", find("c13_param_tag_probe", src, r"MPI_Probe\([^;]*?MPI_ANY_SOURCE\s*,\s*(\d+)\s*,", 345))
    N("c13_param_tag_recv", find("c13_param_tag_recv", src, r"MPI_Recv\(receiveBuffer_,\s*count,\s*MPI_PACKED,\s*source,\s*(\d+)\s*,", 345))
    # DefaultNumberer::operator(): return std::numeric_limits<size_t>::max();
    m = re.search(r"class\s+DefaultNumberer(?s:.*?)return\s+std::numeric_limits<\s*(?:std::)?size_t\s*>::max\(\)\s*;", src)
    report["c13_param_default_local"] = {"value": 2 ** 64 - 1, "source": "extracted" if m else "DEFAULT (not located in source)"}
    N("c13_param_default_local", 2 ** 64 - 1)
    B("c13_param_default_is_size_max", 1 if m else 0)
    # the two indexSet_.add sites: ParallelLocalIndex<Attribute>(numberer(global), myAttribute, <public>)
    pubs = re.findall(r"ParallelLocalIndex<Attribute>\(\s*numberer\(global\)\s*,\s*myAttribute\s*,\s*(true|false)\s*\)", src)
    ok = len(pubs) == 2
    report["c13_param_added_public"] = {"value": pubs, "source": "extracted" if ok else "DEFAULT (not located in source)"}
    B("c13_param_added_public", (pubs[0] == "true") if ok else 1)
    B("c13_param_added_public_second_site", (pubs[1] == "true") if ok else 1)
    # duplicate test of insertIntoRemoteIndexList
    m = re.search(r"//entry already exists with the same attribute\s*if\(\s*tmpIterators\.(remoteIndex\(\)\.attribute\(\)|globalIndexPair\(\)\.second)\s*==\s*attribute\s*\)", src)
    report["c13_param_dup_test_remote_attr"] = {"value": m.group(1) if m else None, "source": "extracted" if m else "DEFAULT (not located in source)"}
    B("c13_param_dup_test_remote_attr", (m.group(1).startswith("remoteIndex")) if m else 1)
    n = len(re.findall(r"addedIndices_\.insert\(std::make_pair\(global,\s*attribute\)\)\.second", src))
    report["c13_param_dedup_added"] = {"value": n, "source": "extracted" if n else "DEFAULT (not located in source)"}
    # guarded at every add site that is located; the NUMBER of sites depends on how the code is factored (the behaviour-preserving
    # rewrite refactors/C13 merges the two duplicated branches into one, which raised an alarm while this read `n == 2`)
    B("c13_param_dedup_added", n >= 1 if n else 1)
    B("c13_param_infosend_cleared", find("c13_param_infosend_cleared", src, r"(infoSend_\.clear\(\)\s*;)", 0, lambda s: 1))
    B("c13_param_modifier_repair_advances_giter", find("c13_param_modifier_repair_advances_giter", ri,
      r"for\(auto iter=rList_->begin\(\);\s*iter != end_;\s*\+\+iter,\s*(\+\+giter)\)", 0, lambda s: 1))
    return out
