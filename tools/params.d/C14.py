# C14: literals of dune/common/std/{layout_left,layout_right,layout_stride,span,mdspan,mdarray}.hh the model depends on:
# the offset returned by the rank-0 operator()(), the span size of a rank-0 strided mapping, the initial value of the
# product / span-size accumulators, the constant answers of is_exhaustive()/is_unique()/is_strided()/is_always_*(),
# the default layout policy of mdspan/mdarray and the definition of dynamic_extent.
def lines(repo, read, find, report):
    import re
    out = []
    b = lambda s: {"true": 1, "false": 0}[s]
    srcs = {"left": read("dune/common/std/layout_left.hh"), "right": read("dune/common/std/layout_right.hh"),
            "stride": read("dune/common/std/layout_stride.hh")}
    dflt_flags = {"left": dict(is_always_unique=1, is_always_exhaustive=1, is_always_strided=1, is_unique=1, is_exhaustive=1, is_strided=1),
                  "right": dict(is_always_unique=1, is_always_exhaustive=1, is_always_strided=1, is_unique=1, is_exhaustive=1, is_strided=1),
                  "stride": dict(is_always_unique=1, is_always_exhaustive=0, is_always_strided=1, is_unique=1, is_strided=1)}
    for lay, txt in srcs.items():
        for fl, d in dflt_flags[lay].items():
            v = find("c14_param_%s_%s" % (lay, fl), txt,
                     r"static\s+constexpr\s+bool\s+%s\s*\(\s*\)\s*noexcept\s*\{\s*return\s+(true|false)\s*;\s*\}" % fl, d, b)
            out.append("Definition c14_param_%s_%s : bool := %s." % (lay, fl, "true" if v else "false"))
        # constexpr index_type operator() () const noexcept { return 0; }
        v = find("c14_param_%s_rank0_offset" % lay, txt,
                 r"constexpr\s+index_type\s+operator\(\)\s*\(\s*\)\s*const\s+noexcept\s*\{\s*return\s+(-?\d+)\s*;\s*\}", 0)
        out.append("Definition c14_param_%s_rank0_offset : Z := (%d)%%Z." % (lay, v))
    st = srcs["stride"]
    v = find("c14_param_stride_rank0_span", st, r"if\s+constexpr\s*\(\s*E::rank\(\)\s*==\s*0\s*\)\s*return\s+(\d+)\s*;", 1)
    out.append("Definition c14_param_stride_rank0_span : Z := %d%%Z." % v)
    v = find("c14_param_stride_span_init", st, r"index_type\s+result\s*=\s*(\d+)\s*;", 1)
    out.append("Definition c14_param_stride_span_init : Z := %d%%Z." % v)
    v = find("c14_param_stride_empty_span", st, r"if\s*\(\s*extents\.product\(\)\s*==\s*0\s*\)\s*return\s+(\d+)\s*;", 0)
    out.append("Definition c14_param_stride_empty_span : Z := %d%%Z." % v)
    ex = read("dune/common/std/extents.hh")
    v = find("c14_param_product_init", ex, r"size_type\s+prod\s*=\s*(\d+)\s*;", 1)
    out.append("Definition c14_param_product_init : Z := %d%%Z." % v)
    sp = read("dune/common/std/span.hh")
    v = find("c14_param_dynamic_extent_is_sizemax", sp,
             r"dynamic_extent\s*=\s*(std::numeric_limits<\s*std::size_t\s*>::max\(\))\s*;", 1, lambda s: 1)
    out.append("Definition c14_param_dynamic_extent_is_sizemax : bool := %s." % ("true" if v else "false"))
    code = {"layout_left": 0, "layout_right": 1, "layout_stride": 2}
    for nm, f in (("mdspan", "dune/common/std/mdspan.hh"), ("mdarray", "dune/common/std/mdarray.hh")):
        v = find("c14_param_%s_default_layout" % nm, read(f), r"class\s+LayoutPolicy\s*=\s*Std::(layout_\w+)", 1, lambda s: code[s])
        out.append("Definition c14_param_%s_default_layout : nat := %d.  (* 0 left, 1 right, 2 stride *)" % (nm, v))
    return out
