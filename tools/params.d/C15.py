# C15: constants of the allocator sources the model and its theorems depend on (re-read on every run):
#  poolallocator.hh   PoolAllocator::max_size() `return 1;`, the count PoolAllocator::allocate serves (`if(n==1)`),
#                     alignment = std::lcm(..) (vs anything else), the `+ 1` of the two round-up expressions
#  debugallocator.hh  pages = capacity / page_size + 2, the `2 *` of the overflow guard, the page-boundary case of deallocate
#  mallocallocator.hh max_size() = size_type(-1) / sizeof(T)
#  debugalign.hh      isAligned: `space = align*2`, debugAlignment = 2*alignof(max_align_t)
import re as _re

def lines(repo, read, find, report):
    pool = read("dune/common/poolallocator.hh")
    dbg = read("dune/common/debugallocator.hh")
    mal = read("dune/common/mallocallocator.hh")
    da = read("dune/common/debugalign.hh")
    def flag(name, text, rx, default):
        ok = _re.search(rx, text, _re.S) is not None
        if text:
            report[name] = {"value": ok, "source": "extracted"}
            return ok
        report[name] = {"value": default, "source": "DEFAULT (file not found)"}
        return default
    b = lambda x: "true" if x else "false"
    pa_max = find("c15_param_pa_max_size", pool, r"max_size\(\)\s*const\s*noexcept\s*\{\s*return\s+(\d+)\s*;", 1)
    pa_n = find("c15_param_pa_alloc_n", pool, r"PoolAllocator<T,s>::allocate\(std::size_t n, const_pointer\)\s*\{\s*if\(n==(\d+)\)", 1)
    lcm = flag("c15_param_alignment_is_lcm", pool, r"alignment\s*=\s*std::lcm\(alignof\(MemberType\),\s*alignof\(Reference\)\)", True)
    ru1 = find("c15_param_roundup_add_aligned", pool, r"\(\(unionSize\s*/\s*alignment\s*\+\s*(\d+)\)\s*\*\s*alignment\)", 1)
    ru2 = find("c15_param_roundup_add_chunk", pool, r"\(\(size\s*/\s*alignment\s*\+\s*(\d+)\)\s*\*\s*alignment\)", 1)
    pages = find("c15_param_dbg_extra_pages", dbg, r"ai\.pages\s*=\s*\(ai\.capacity\)\s*/\s*page_size\s*\+\s*(\d+)\s*;", 2)
    guard = find("c15_param_dbg_guard_pages", dbg, r"size_type\(-1\)\s*-\s*(\d+)\s*\*\s*size_type\(page_size\)\)\s*/\s*sizeof\(T\)", 2)
    has_guard = flag("c15_param_dbg_has_guard", dbg, r"if\s*\(n\s*>\s*\(size_type\(-1\)\s*-\s*\d+\s*\*\s*size_type\(page_size\)\)\s*/\s*sizeof\(T\)\)\s*throw\s+std::bad_alloc", True)
    pagefix = flag("c15_param_dbg_page_boundary_case", dbg, r"\(page_offset\s*\?\s*page_offset\s*:\s*page_size\)", True)
    msdiv = flag("c15_param_max_size_divides", mal, r"return\s+size_type\(-1\)\s*/\s*sizeof\(T\)\s*;", True)
    space = find("c15_param_isaligned_space_factor", da, r"std::size_t\s+space\s*=\s*align\s*\*\s*(\d+)\s*;", 2)
    daf = find("c15_param_debug_align_factor", da, r"debugAlignment\s*=\s*(\d+)\s*\*\s*alignof\(std::max_align_t\)", 2)
    return ["Definition c15_param_pa_max_size : N := %d%%N.  Definition c15_param_pa_alloc_n : N := %d%%N." % (pa_max, pa_n),
            "Definition c15_param_alignment_is_lcm : bool := %s." % b(lcm),
            "Definition c15_param_roundup_add_aligned : N := %d%%N.  Definition c15_param_roundup_add_chunk : N := %d%%N." % (ru1, ru2),
            "Definition c15_param_dbg_extra_pages : N := %d%%N.  Definition c15_param_dbg_guard_pages : N := %d%%N." % (pages, guard),
            "Definition c15_param_dbg_has_guard : bool := %s.  Definition c15_param_dbg_page_boundary_case : bool := %s." % (b(has_guard), b(pagefix)),
            "Definition c15_param_max_size_divides : bool := %s." % b(msdiv),
            "Definition c15_param_isaligned_space_factor : N := %d%%N.  Definition c15_param_debug_align_factor : N := %d%%N." % (space, daf)]
