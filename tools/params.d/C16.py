# C16: the comparison-operator TABLES of the iterator facades and of IntegralRangeIterator are re-read from the source, so that an edit
# of an operator token (`<` vs `<=`, a flipped sign) re-checks the Coq theorems against the new table.
#   code 0: x < y    1: x <= y    2: x > y    3: x >= y          (x = the difference / the left value, y = 0 / the right value)
import re
CODE = {"<": 0, "<=": 1, ">": 2, ">=": 3}

def lines(repo, read, find, report):
    out = []
    fac = read("dune/common/iteratorfacades.hh")
    rng = read("dune/common/rangeutilities.hh")
    dv = read("dune/common/densevector.hh")

    def put(name, val, ok):
        report[name] = {"value": val, "source": "extracted" if ok else "DEFAULT (not located in source)"}
        out.append("Definition %s : nat := %d." % (name, val))

    # legacy RandomAccessIteratorFacade: operator< <= > >= each have two branches  `lhs.distanceTo(rhs) OP 0` / `rhs.distanceTo(lhs) OP 0`
    defaults = {"lt": (2, 0), "le": (3, 1), "gt": (0, 2), "ge": (1, 3)}
    for nm, op in (("lt", "<"), ("le", "<="), ("gt", ">"), ("ge", ">=")):
        m = re.search(r"operator" + re.escape(op) + r"\(const RandomAccessIteratorFacade<T1,V1,R1,D>& lhs,\s*const RandomAccessIteratorFacade<T2,V2,R2,D>& rhs\)\s*\{"
                      r"\s*if\(std::is_convertible<T2,T1>::value\)\s*return static_cast<const T1&>\(lhs\)\.distanceTo\(static_cast<const T2&>\(rhs\)\)\s*(<=|>=|<|>)\s*0;"
                      r"\s*else\s*return static_cast<const T2&>\(rhs\)\.distanceTo\(static_cast<const T1&>\(lhs\)\)\s*(<=|>=|<|>)\s*0;", fac)
        a, b = (CODE[m.group(1)], CODE[m.group(2)]) if m else defaults[nm]
        put("c16_param_ra_%s_conv" % nm, a, bool(m)); put("c16_param_ra_%s_else" % nm, b, bool(m))
    m = re.search(r"operator-\(const RandomAccessIteratorFacade<T1,V1,R1,D>& lhs,\s*const RandomAccessIteratorFacade<T2,V2,R2,D>& rhs\)\s*\{"
                  r"\s*if\(std::is_convertible<T2,T1>::value\)\s*return (-?)static_cast<const T1&>\(lhs\)\.distanceTo\(static_cast<const T2&>\(rhs\)\);"
                  r"\s*else\s*return (-?)static_cast<const T2&>\(rhs\)\.distanceTo\(static_cast<const T1&>\(lhs\)\);", fac)
    put("c16_param_ra_diff_conv_negated", (1 if m.group(1) == "-" else 0) if m else 1, bool(m))
    put("c16_param_ra_diff_else_negated", (1 if m.group(2) == "-" else 0) if m else 0, bool(m))
    # new IteratorFacade: `return (derivedIt1 - derivedIt2) OP D1(0);` in the order < <= > >=
    ops = re.findall(r"return \(derivedIt1 - derivedIt2\)\s*(<=|>=|<|>)\s*D1\(0\);", fac)
    ok = len(ops) == 4
    for nm, d, i in (("lt", 0, 0), ("le", 1, 1), ("gt", 2, 2), ("ge", 3, 3)):
        put("c16_param_nf_%s" % nm, CODE[ops[i]] if ok else d, ok)
    # Impl::IntegralRangeIterator: `operator OP (...) { return (value_ OP' other.value_); }`
    for nm, op, d in (("lt", "<", 0), ("le", "<=", 1), ("gt", ">", 2), ("ge", ">=", 3)):
        m = re.search(r"constexpr bool operator" + re.escape(op) + r"\(const IntegralRangeIterator & other\) const noexcept \{ return \(value_ (<=|>=|<|>) other\.value_\); \}", rng)
        put("c16_param_ir_%s" % nm, CODE[m.group(1)] if m else d, bool(m))
    # DenseVector::beforeBegin() is `Iterator(*this,-1)`, beforeEnd() is `Iterator(*this,size()-1)`
    m = re.search(r"Iterator beforeBegin \(\)\s*\{\s*return Iterator\(\*this,\s*(-?\d+)\);", dv)
    v = int(m.group(1)) if m else -1
    report["c16_param_dense_before_begin"] = {"value": v, "source": "extracted" if m else "DEFAULT (not located in source)"}
    out.append("Definition c16_param_dense_before_begin : Z := (%d)%%Z." % v)
    m = re.search(r"Iterator beforeEnd \(\)\s*\{\s*return Iterator\(\*this,\s*size\(\)\s*-\s*(\d+)\);", dv)
    v = int(m.group(1)) if m else 1
    report["c16_param_dense_before_end_offset"] = {"value": v, "source": "extracted" if m else "DEFAULT (not located in source)"}
    out.append("Definition c16_param_dense_before_end_offset : Z := (%d)%%Z." % v)
    return out
