# C17: defaults of dune/common/float_cmp.hh/.cc that the model's "defaulted argument" overloads depend on:
#   enum defaults (defaultCmpStyle, defaultRoundingStyle) and the literals of DefaultEpsilon<T,style>::value()
#   (epsilon()*8. for the relative styles, std::max(epsilon(), 1e-6) for absolute).
def lines(repo, read, find, report):
    from fractions import Fraction
    from decimal import Decimal
    hh = read("dune/common/float_cmp.hh")
    cc = read("dune/common/float_cmp.cc")
    cst = ["relativeWeak", "relativeStrong", "absolute"]
    rst = ["towardZero", "towardInf", "downward", "upward"]
    c = find("c17_param_default_cstyle", hh, r"defaultCmpStyle\s*=\s*(\w+)", 0, lambda s: cst.index(s))
    r = find("c17_param_default_rstyle", hh, r"defaultRoundingStyle\s*=\s*(\w+)", 0, lambda s: rst.index(s))
    def lit(name, rx, default):
        v = find(name, cc, rx, default, lambda s: str(Fraction(Decimal(s))))
        f = Fraction(v)
        return f.numerator, f.denominator
    wn, wd = lit("c17_param_eps_weak", r"(?s)struct\s+DefaultEpsilon<T,\s*relativeWeak>.*?epsilon\(\)\s*\*\s*([0-9][0-9.eE+-]*)\s*;", "8")
    sn, sd = lit("c17_param_eps_strong", r"(?s)struct\s+DefaultEpsilon<T,\s*relativeStrong>.*?epsilon\(\)\s*\*\s*([0-9][0-9.eE+-]*)\s*;", "8")
    an, ad = lit("c17_param_eps_abs", r"(?s)struct\s+DefaultEpsilon<T,\s*absolute>.*?epsilon\(\)\s*,\s*([0-9][0-9.eE+-]*)\s*\)", "1/1000000")
    mh = read("dune/common/math.hh")
    sneg = find("c17_param_sign_neg", mh, r"return\s*\(\s*val\s*<\s*0\s*\?\s*(-?\d+)\s*:\s*-?\d+\s*\)", -1, int)
    spos = find("c17_param_sign_nonneg", mh, r"return\s*\(\s*val\s*<\s*0\s*\?\s*-?\d+\s*:\s*(-?\d+)\s*\)", 1, int)
    bthen = find("c17_param_binom_nn_then", mh, r"\(\s*n\s*>=\s*0\s*\?\s*(-?\d+)\s*:\s*-?\d+\s*\)", 1, int)
    belse = find("c17_param_binom_nn_else", mh, r"\(\s*n\s*>=\s*0\s*\?\s*-?\d+\s*:\s*(-?\d+)\s*\)", 0, int)
    extra = ["Definition c17_param_sign_neg : Z := (%d)%%Z.  Definition c17_param_sign_nonneg : Z := (%d)%%Z." % (sneg, spos),
             "Definition c17_param_binom_nn_then : Z := (%d)%%Z.  Definition c17_param_binom_nn_else : Z := (%d)%%Z." % (bthen, belse)]
    return extra + ["Definition c17_param_default_cstyle : nat := %d." % c,
            "Definition c17_param_default_rstyle : nat := %d." % r,
            "Definition c17_param_eps_weak_num : Z := %d%%Z.  Definition c17_param_eps_weak_den : Z := %d%%Z." % (wn, wd),
            "Definition c17_param_eps_strong_num : Z := %d%%Z.  Definition c17_param_eps_strong_den : Z := %d%%Z." % (sn, sd),
            "Definition c17_param_eps_abs_num : Z := %d%%Z.  Definition c17_param_eps_abs_den : Z := %d%%Z." % (an, ad)]
