# C18: formatString's stack buffer size (dune/common/stringutility.hh: `static const int bufferSize=1000;`)
def lines(repo, read, find, report):
    su = read("dune/common/stringutility.hh")
    n = find("c18_param_format_buffer", su, r"static\s+const\s+int\s+bufferSize\s*=\s*(\d+)\s*;", 1000)
    return ["Definition c18_param_format_buffer : nat := %d." % n]
