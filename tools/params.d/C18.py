# C18: constants re-read from the source on every run:
#  - formatString's stack buffer size (dune/common/stringutility.hh: `static const int bufferSize=1000;`)
#  - the texts of the two NotImplemented messages of relativePath (dune/common/path.cc), split at the places where
#    newbase and p are streamed in:  pre << newbase << mid << p << post
#  - the text of formatString's conversion-error message
import re as _re

def _throw_pieces(text, start_pat):
    """Return [pre, mid, post] of  DUNE_THROW(NotImplemented, "..." << newbase << "..." << p << "...")  following start_pat."""
    m = _re.search(start_pat, text, _re.S)
    if not m:
        return None
    i = text.find("DUNE_THROW", m.end())
    if i < 0:
        return None
    j = text.find(";", i)
    # the message expression ends at the ");" that closes DUNE_THROW: scan with string awareness
    k = text.find(",", i) + 1
    pieces, cur, n = [], "", len(text)
    order = []
    while k < n:
        c = text[k]
        if c == '"':
            k += 1
            while text[k] != '"':
                if text[k] == "\\":
                    esc = text[k + 1]
                    cur += {"n": "\n", "t": "\t", '"': '"', "\\": "\\"}.get(esc, esc)
                    k += 2
                else:
                    cur += text[k]; k += 1
            k += 1
        elif text.startswith("<<", k):
            k += 2
        elif c.isalpha() or c == "_":
            mm = _re.match(r"[A-Za-z_]\w*", text[k:])
            order.append(mm.group(0)); pieces.append(cur); cur = ""
            k += len(mm.group(0))
        elif c == ")":
            pieces.append(cur); break
        else:
            k += 1
    if order != ["newbase", "p"] or len(pieces) != 3:
        return None
    return pieces

def _coq_string(s):
    if not all(32 <= ord(c) < 127 for c in s):
        raise ValueError("non-printable character in message")
    return '"' + s.replace('"', '""') + '"%string'

def lines(repo, read, find, report):
    su = read("dune/common/stringutility.hh")
    n = find("c18_param_format_buffer", su, r"static\s+const\s+int\s+bufferSize\s*=\s*(\d+)\s*;", 1000)
    out = ["Definition c18_param_format_buffer : nat := %d." % n]
    pc = read("dune/common/path.cc")
    defaults = {
        "abs": ['relativePath: paths must be either both relative or both absolute: newbase="', '" p="', '"'],
        "up": ['relativePath: newbase has too many leading ".." components: newbase="', '" p="', '"'],
    }
    got = {}
    for key, pat in (("abs", r"if\s*\(\s*absbase\s*!=\s*absp\s*\)"), ("up", r'if\s*\(\s*hasPrefix\s*\(\s*mybase\s*,\s*"\.\./"\s*\)\s*\)')):
        try:
            pcs = _throw_pieces(pc, pat)
            for s in pcs or []:
                _coq_string(s)
        except Exception:
            pcs = None
        if pcs:
            got[key] = pcs; report["c18_param_msg_" + key] = {"value": pcs, "source": "extracted"}
        else:
            got[key] = defaults[key]; report["c18_param_msg_" + key] = {"value": defaults[key], "source": "DEFAULT (not located in source)"}
    m = _re.search(r'if\s*\(r<0\)\s*DUNE_THROW\(Dune::Exception,\s*"((?:[^"\\]|\\.)*)"\)', su)
    fe = m.group(1) if m else "Could not convert format string using given arguments."
    report["c18_param_msg_format"] = {"value": fe, "source": "extracted" if m else "DEFAULT (not located in source)"}
    out.append("From Coq Require Import String.")
    for key in ("abs", "up"):
        for part, s in zip(("pre", "mid", "post"), got[key]):
            out.append("Definition c18_param_msg_%s_%s : string := %s." % (key, part, _coq_string(s)))
    out.append("Definition c18_param_msg_format : string := %s." % _coq_string(fe))
    return out
