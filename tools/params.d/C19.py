# C19: literals of mpiguard.hh / mpifuture.hh / future.hh the guard and future models depend on
#   finalize():  int result = success ? <ok> : <fail>;   if (result><thr> && was_active) throw
#   default arguments: MPIGuard(..., bool active=<b>) (all constructors must agree), finalize(bool success = <b>),
#   ~MPIGuard(): finalize(<b>),  MPIFuture(bool valid = <b>),  PseudoFuture<void>(bool valid = <b>)
import re as _re
def lines(repo, read, find, report):
    g = read("dune/common/parallel/mpiguard.hh")
    f = read("dune/common/parallel/mpifuture.hh")
    p = read("dune/common/parallel/future.hh")
    b = lambda s: 1 if s == "true" else 0
    ok = find("c19_param_ok_contrib", g, r"int\s+result\s*=\s*success\s*\?\s*(\d+)\s*:\s*\d+\s*;", 0)
    fail = find("c19_param_fail_contrib", g, r"int\s+result\s*=\s*success\s*\?\s*\d+\s*:\s*(\d+)\s*;", 1)
    thr = find("c19_param_throw_threshold", g, r"if\s*\(\s*result\s*>\s*(\d+)\s*&&\s*was_active\s*\)", 0)
    acts = _re.findall(r"bool\s+active\s*=\s*(true|false)", g)
    if acts:
        act = 1 if all(a == "true" for a in acts) else 0
        report["c19_param_ctor_default_active"] = {"value": act, "source": "extracted (%d constructors)" % len(acts)}
    else:
        act = 1; report["c19_param_ctor_default_active"] = {"value": act, "source": "DEFAULT (not located in source)"}
    fin = find("c19_param_finalize_default", g, r"void\s+finalize\s*\(\s*bool\s+success\s*=\s*(true|false)\s*\)", 1, b)
    dtor = find("c19_param_dtor_success", g, r"~MPIGuard\s*\(\s*\)\s*\{[^}]*?finalize\s*\(\s*(true|false)\s*\)", 0, b)
    mv = find("c19_param_mpifuture_default_valid", f, r"MPIFuture\s*\(\s*bool\s+valid\s*=\s*(true|false)\s*\)", 0, b)
    pv = find("c19_param_pseudofuture_void_default_valid", p, r"PseudoFuture\s*\(\s*bool\s+valid\s*=\s*(true|false)\s*\)", 0, b)
    B = lambda x: "true" if x else "false"
    return ["Definition c19_param_ok_contrib : nat := %d." % ok,
            "Definition c19_param_fail_contrib : nat := %d." % fail,
            "Definition c19_param_throw_threshold : nat := %d." % thr,
            "Definition c19_param_ctor_default_active : bool := %s." % B(act),
            "Definition c19_param_finalize_default : bool := %s." % B(fin),
            "Definition c19_param_dtor_success : bool := %s." % B(dtor),
            "Definition c19_param_mpifuture_default_valid : bool := %s." % B(mv),
            "Definition c19_param_pseudofuture_void_default_valid : bool := %s." % B(pv)]
