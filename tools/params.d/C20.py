# C20: literals of the Python bindings that the model prints / decides on, re-read from the checked tree on every run:
#   dune/python/common/fvector.hh   to_string( FieldVector ): "(" + join( ", ", ... ) + ")";  __repr__: "Dune::FieldVector<"+size+">"+...
#   dune/python/common/densevector.hh   __getitem__/__setitem__ out of range: pybind11::index_error; n>1 int overloads: `a != 0`, value_error;
#                                       __neg__: `*copy *= ValueType( -1 )`
#   dune/python/common/fvector.hh   buffer constructor: pybind11::value_error for format / dimension
#   dune/python/common/numpyvector.hh   NumPyVector( pybind11::buffer ): `arrayInfo = array_.request(true)` -- whether write access
#                                       to the wrapped array is requested (c20_param_npv_request_writable)
# Strings are emitted as lists of character codes (Params_gen.v imports only NArith/ZArith); exception classes as codes
# 0 = IndexError, 1 = TypeError, 2 = ValueError, 3 = RuntimeError.
def lines(repo, read, find, report):
    import re
    fv = read("dune/python/common/fvector.hh")
    dv = read("dune/python/common/densevector.hh")
    codes = lambda s: "(" + "".join("cons %d (" % ord(c) for c in s) + "nil" + ")" * len(s) + ")"
    unesc = lambda s: s.encode().decode("unicode_escape")
    exc = {"index_error": 0, "type_error": 1, "value_error": 2, "error_already_set": 3, "cast_error": 3}
    exc_code = lambda s: exc[s]
    m = re.search(r'to_string\s*\(\s*const\s+FieldVector<[^)]*\)\s*\{\s*return\s+"((?:[^"\\]|\\.)*)"\s*\+\s*join\(\s*"((?:[^"\\]|\\.)*)"[\s\S]{0,200}?x\.end\(\)\s*\)\s*\+\s*"((?:[^"\\]|\\.)*)"\s*;', fv)
    if m:
        op, sep, cl = (unesc(g) for g in m.groups())
        for k, v in (("c20_param_str_open", op), ("c20_param_str_sep", sep), ("c20_param_str_close", cl)):
            report[k] = {"value": v, "source": "extracted"}
    else:
        op, sep, cl = "(", ", ", ")"
        for k, v in (("c20_param_str_open", op), ("c20_param_str_sep", sep), ("c20_param_str_close", cl)):
            report[k] = {"value": v, "source": "DEFAULT (not located in source)"}
    rp = find("c20_param_repr_prefix", fv, r'"__repr__"[^;]*?return\s+"((?:[^"\\]|\\.)*)"\s*\+\s*to_string\(\s*size\s*\)', "Dune::FieldVector<", unesc)
    rs = find("c20_param_repr_suffix", fv, r'"__repr__"[^;]*?to_string\(\s*size\s*\)\s*\+\s*"((?:[^"\\]|\\.)*)"\s*\+\s*to_string\(\s*self\s*\)', ">", unesc)
    gi = find("c20_param_getitem_exc", dv, r'"__getitem__"[\s\S]{0,300}?else\s+throw\s+pybind11::(\w+)\s*\(', 0, exc_code)
    si = find("c20_param_setitem_exc", dv, r'"__setitem__"[\s\S]{0,300}?else\s+throw\s+pybind11::(\w+)\s*\(', 0, exc_code)
    be = find("c20_param_buffer_format_exc", fv, r'info\.format\s*!=[^;]*?throw\s+pybind11::(\w+)\s*\(', 2, exc_code)
    bd = find("c20_param_buffer_ndim_exc", fv, r'info\.ndim\s*!=\s*1\s*\)\s*throw\s+pybind11::(\w+)\s*\(', 2, exc_code)
    bn = find("c20_param_buffer_ndim", fv, r'info\.ndim\s*!=\s*(\d+)\s*\)', 1)
    se = find("c20_param_scalar_exc", dv, r'"__add__",\s*\[\]\s*\(\s*pybind11::object\s+self,\s*int\s+a\s*\)\s*\{\s*if\(\s*a\s*!=\s*-?\d+\s*\)\s*throw\s+pybind11::(\w+)\s*\(', 2, exc_code)
    sz = find("c20_param_scalar_neutral", dv, r'"__add__",\s*\[\]\s*\(\s*pybind11::object\s+self,\s*int\s+a\s*\)\s*\{\s*if\(\s*a\s*!=\s*(-?\d+)\s*\)', 0)
    ng = find("c20_param_neg_factor", dv, r'"__neg__"[\s\S]{0,120}?\*copy\s*\*=\s*ValueType\(\s*(-?\d+)\s*\)', -1)
    nv = read("dune/python/common/numpyvector.hh")
    rw = find("c20_param_npv_request_writable", nv, r'arrayInfo\s*=\s*array_\.request\(\s*(\w*)\s*\)', "true",
              lambda s: "true" if s.strip() == "true" else "false")
    return ["Definition c20_param_npv_request_writable : bool := %s." % rw,
            "Definition c20_param_str_open : list nat := %s." % codes(op),
            "Definition c20_param_str_sep : list nat := %s." % codes(sep),
            "Definition c20_param_str_close : list nat := %s." % codes(cl),
            "Definition c20_param_repr_prefix : list nat := %s." % codes(rp),
            "Definition c20_param_repr_suffix : list nat := %s." % codes(rs),
            "Definition c20_param_getitem_exc : nat := %d." % gi,
            "Definition c20_param_setitem_exc : nat := %d." % si,
            "Definition c20_param_buffer_format_exc : nat := %d." % be,
            "Definition c20_param_buffer_ndim_exc : nat := %d." % bd,
            "Definition c20_param_buffer_ndim : nat := %d." % bn,
            "Definition c20_param_scalar_exc : nat := %d." % se,
            "Definition c20_param_scalar_neutral : Z := (%d)%%Z." % sz,
            "Definition c20_param_neg_factor : Z := (%d)%%Z." % ng]
