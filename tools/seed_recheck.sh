#!/bin/bash
# tools/seed_recheck.sh Cxx-n [SEEDREPO] "<note>": re-run our check against a seeded change that was MISSED at first contact,
# after the slice was strengthened; appends the new verdict to seeded/Cxx-n/verify.log and records the history in meta.json (verif_note).
set -u
N=$1; S=${2:-/tmp/seedrepo}; NOTE=${3:-}; P=${N%%-*}; V=$(cd "$(dirname "$0")/.." && pwd); D=$V/seeded/$N
git -C $S checkout -q -- . ; git -C $S checkout -q --detach ${SEEDBASE:-$(git -C /repo rev-parse HEAD)}
git -C $S apply $D/patch.diff || { echo "PATCH DOES NOT APPLY"; exit 2; }
echo "== first contact: MISSED (check exit 0); re-run after the slice was strengthened (base $(git -C $S rev-parse --short HEAD)):" >> $D/verify.log
( cd $V && timeout 3000 bin/check $P --repo $S 2>&1 | grep -E '^VIOLATION property=|KNOWN-FINDING|done rc' ) | tee -a $D/verify.log | cut -c1-160
git -C $S checkout -q -- .
python3 - "$D" "$NOTE" <<'PY'
import json,sys,re
d,note=sys.argv[1],sys.argv[2]
m=json.load(open(d+"/meta.json")); log=open(d+"/verify.log").read()
tail=log.split("== first contact: MISSED")[-1]
nv=len(re.findall(r"^VIOLATION property=",tail,re.M)); nnf=len(re.findall(r"^VIOLATION property=.*no-failing-input-found",tail,re.M))
m["verif_note"]="MISSED at first contact (check exit 0); %s; now: %d VIOLATION line(s), %d with a concrete replay"%(note,nv,nv-nnf)
json.dump(m,open(d+"/meta.json","w"),indent=1)
print(m["verif_note"])
PY
python3 $V/tools/extract_params.py /repo >/dev/null
