#!/bin/bash
# tools/seed_round6.sh <SEEDREPO> Cxx [Cyy ...]: verify the round-6 seeded changes of the given properties one after the other
# in the given scratch build tree; results in seeded/Cxx-6/verify.log.  The agent's own worktree is removed afterwards.
S=$1; shift
for P in "$@"; do
  [ -f /tmp/seedout6-$P/patch.diff ] || { echo "$P: no patch.diff"; continue; }
  SEEDREPO=$S SEED_J=6 bash "$(dirname "$0")/seed_verify.sh" $P /tmp/seedout6-$P $P-6 > /tmp/seedverify6-$P.log 2>&1
  git -C /repo worktree remove --force /tmp/seed6-$P 2>/dev/null
  echo "$P: $(grep -c "^VIOLATION property=" /verif/seeded/$P-6/verify.log) violation lines; $(grep -E 'demo on|tests passed' /verif/seeded/$P-6/verify.log | tr '\n' ';')"
done
