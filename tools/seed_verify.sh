#!/bin/bash
# tools/seed_verify.sh Cxx [outdir [name]]: confirm a seeded breaking change independently and run our check against it.
#  - copies /tmp/seedout-Cxx/{patch.diff,demo.*,meta.json} to seeded/Cxx/
#  - scratch tree /tmp/seedrepo (worktree of /repo with its own configured _build): demo passes on clean, fails on patched;
#    existing suite (C++/MPI tests; python tests need /repo/_build's venv) still passes with the patch
#  - bin/check Cxx --repo /tmp/seedrepo must print VIOLATION
set -u
P=$1; OUT=${2:-/tmp/seedout-$P}; NAME=${3:-$P}; V=$(cd "$(dirname "$0")/.." && pwd); S=${SEEDREPO:-/tmp/seedrepo}
D=$V/seeded/$NAME; mkdir -p $D; find $OUT -maxdepth 1 -type f -size -400k -exec cp {} $D/ \; 2>/dev/null
LOG=$D/verify.log; : > $LOG
export OMPI_ALLOW_RUN_AS_ROOT=1 OMPI_ALLOW_RUN_AS_ROOT_CONFIRM=1
git -C $S checkout -q -- . ; git -C $S checkout -q --detach $(git -C /repo rev-parse HEAD) 2>>$LOG
echo "== base $(git -C $S rev-parse --short HEAD)" | tee -a $LOG
( cd $D && timeout 900 bash ./demo.sh $S ) >> $LOG 2>&1; echo "demo on clean tree: exit $? (expect 0)" | tee -a $LOG
git -C $S apply $D/patch.diff 2>>$LOG || { echo "PATCH DOES NOT APPLY" | tee -a $LOG; exit 2; }
( cd $D && timeout 900 bash ./demo.sh $S ) >> $LOG 2>&1; echo "demo on patched tree: exit $? (expect non-zero)" | tee -a $LOG
( cd $S/_build && cmake --build . --target build_tests -j${SEED_J:-12} > /tmp/seed_build_$P.log 2>&1 ); echo "build_tests with patch: exit $?" | tee -a $LOG
( cd $S/_build && ctest -j${SEED_J:-8} --timeout 900 -E '^pythontests' > /tmp/seed_ctest_$P.log 2>&1 ); echo "ctest (without python tests) with patch: exit $? : $(grep 'tests passed' /tmp/seed_ctest_$P.log)" | tee -a $LOG
grep -E '\*\*\*Failed|\*\*\*Timeout|\*\*\*Exception' /tmp/seed_ctest_$P.log | tee -a $LOG
if git -C $S diff --name-only | grep -q '^python/'; then
  ( cd /repo/_build && PYTHONPATH=$S/python:${PYTHONPATH:-} ./run-in-dune-env python3 /repo/dune/python/test/pythontests.py > /tmp/seed_py_$P.log 2>&1 ); echo "pythontests.py with the patched python package first on PYTHONPATH: exit $?" | tee -a $LOG
fi
if git -C $S diff --name-only | grep -q 'dune/python'; then echo "NOTE: patch touches C++ binding headers (used by JIT-compiled modules only): the python tests were run against the patched headers by the seeding agent (see meta.json what_you_ran)" | tee -a $LOG; fi
( cd $V && timeout 3000 bin/check $P --repo $S 2>&1 | grep -E 'VIOLATION|KNOWN-FINDING|done rc' ) | tee -a $LOG
git -C $S checkout -q -- .
python3 $V/tools/extract_params.py /repo
