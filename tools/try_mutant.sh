#!/bin/bash
# tools/try_mutant.sh <Cxx> <patch-file> [tier]: apply a patch to a scratch worktree of /repo, run the check against it, clean up.
set -u
P=$1; PATCH=$(realpath "$2"); TIER=${3:-quick}
WT=/tmp/mut-$P-$$
git -C /repo worktree add -q --detach "$WT" HEAD || exit 2
( cd "$WT" && git apply "$PATCH" ) || { echo "PATCH DOES NOT APPLY"; git -C /repo worktree remove --force "$WT"; exit 2; }
cd "$(dirname "$0")/.." && bin/check "$P" --tier "$TIER" --repo "$WT" 2>&1 | grep -v '^\[' | head -12
rc=${PIPESTATUS[0]}
git -C /repo worktree remove --force "$WT"
python3 tools/extract_params.py /repo
echo "mutant check exit=$rc"
